"""U-TML-V: Verus contracts on src/toml.rs for ANY history of calls: `Output::{new, ensure_one_use, output_value}`, the three
methods of `impl crate::Output for Output<W>`, `toml::transcode` and `toml::input_matches`.

State view of an output: (used, wa_log(w), w_misc(w)) where `wa_log` is the list of buffers handed to `write_all` and
`w_misc` counts every other write-side call (`write`).  Proved on the verbatim code:
  * ensure_one_use: used => Err(MultiDocument) and NOTHING changes; !used => Ok, the mark is set, the writer untouched;
  * output_value: a non-table root => Err(NonTableRoot), writer untouched; a table => at most one `write_all` of exactly
    `toml_text(table)` (the text `toml::to_string_pretty` returned), on Ok exactly one; never a `write`;
  * transcode_from / transcode_value: `step_ok`: from a used output nothing is written and the call fails; from an unused
    one the mark is set and at most one buffer, a whole document, is written (exactly one on Ok);
  * flush: no write_all, no write, mark unchanged;
  * THEOREM lemma_at_most_one_document: along ANY sequence of states linked by step_ok / flush from `new(w)`, the writer
    has received nothing or exactly one buffer, and that buffer is one complete TOML document (C08, unbounded history);
  * transcode: the TOML deserializer offered to the output is built over EVERY byte of the input (`handle_bytes`), after the
    UTF-8 check of exactly those bytes; (T6'') `input.try_into()` is redirected to the stand-in `input::handle_into_cow`
    whose contract is the one proved for `Cow::try_from(Handle)` in U-CAP-V;
  * input_matches: slice input => Ok(utf8 && toml parses); reader input => the prefix is asked for with the 2 MiB cutoff,
    a prefix at or over the cutoff => Ok(false), otherwise the same verdict on the prefix; a reader error => that error.

Stand-ins with ASSUMED contracts: std::io::Write (history variables wa_log / w_misc), the toml crate (`Value` with its seven
variants, `Table`, `to_string_pretty`, `Value::deserialize` / `try_from`, `Deserializer::new`), serde's `IgnoredAny`,
`crate::Error` + its `From` impls, `Ref::prefix` (proved in U-CAP-V), `str::from_utf8`, `String::as_bytes`.
`Output`, `TomlOutputError` and `Ref` are extracted verbatim.
"""

HEADER = r'''#![allow(unused)]
// GENERATED on every run by /verif/bin/vcheck -- do not edit.  Executable items below are extracted
// verbatim from the working tree; ghost insertions are wrapped in /*@G<*/ ... /*@G>*/ markers.
use vstd::prelude::*;
use std::borrow::Cow;
use std::io::{self, Read, Write};
use std::str;
use vstd::string::StringSliceAdditionalSpecFns;
verus! {
#[verifier::external_type_specification] #[verifier::external_body] pub struct ExIoError(std::io::Error);
#[verifier::external_type_specification] #[verifier::external_body] pub struct ExUtf8Error(std::str::Utf8Error);
// history variables of a writer: the buffers handed to write_all so far, and the number of other write-side calls
pub uninterp spec fn wa_log<W: ?Sized>(w: &W) -> Seq<Seq<u8>>;
pub uninterp spec fn w_misc<W: ?Sized>(w: &W) -> nat;
#[verifier::external_trait_specification]
pub trait ExWrite {
    type ExternalTraitSpecificationFor: std::io::Write;
    fn write(&mut self, buf: &[u8]) -> (r: std::io::Result<usize>)
        ensures wa_log(final(self)) == wa_log(old(self)), w_misc(final(self)) == w_misc(old(self)) + 1,
    ;
    fn write_all(&mut self, buf: &[u8]) -> (r: std::io::Result<()>)
        ensures wa_log(final(self)) == wa_log(old(self)).push(buf@), w_misc(final(self)) == w_misc(old(self)),
    ;
    fn flush(&mut self) -> (r: std::io::Result<()>)
        ensures wa_log(final(self)) == wa_log(old(self)), w_misc(final(self)) == w_misc(old(self)),
    ;
}
#[verifier::external_trait_specification]
pub trait ExRead {
    type ExternalTraitSpecificationFor: std::io::Read;
    fn read(&mut self, buf: &mut [u8]) -> (r: std::io::Result<usize>);
}
pub uninterp spec fn utf8_ok(b: Seq<u8>) -> bool;
// `&c` with c: Cow<[u8]> coerced to &[u8] (ASSUMED: Cow::deref is a pure function of the Cow)
pub uninterp spec fn cow_ref<'a, 'b, B: ?Sized + ToOwned>(c: &'b std::borrow::Cow<'a, B>) -> &'b B;
pub assume_specification<'a, 'b, B: ?Sized + ToOwned> [<std::borrow::Cow<'a, B> as std::ops::Deref>::deref] (c: &'b std::borrow::Cow<'a, B>) -> (r: &'b B)
    ensures r == cow_ref(c);
pub assume_specification [std::str::from_utf8] (v: &[u8]) -> (r: std::result::Result<&str, std::str::Utf8Error>)
    ensures (r is Ok) == utf8_ok(v@), r matches Ok(s) ==> s.spec_bytes() == v@;
// ASSUMED arithmetic fact about a std function: the one call in toml::input_matches is 1024^2
pub assume_specification [usize::pow] (b: usize, e: u32) -> (r: usize)
    ensures b == 1024 && e == 2 ==> r == 1048576;
pub uninterp spec fn string_bytes(s: &String) -> Seq<u8>;
pub assume_specification [std::string::String::as_bytes] (s: &String) -> (r: &[u8])
    ensures r@ == string_bytes(s);

pub mod serde {
    pub mod de {
        use vstd::prelude::*;
        pub trait Error {}
        pub trait Deserializer<'de> { type Error; }
        pub trait Deserialize<'de>: Sized {
            fn deserialize<D: Deserializer<'de>>(d: D) -> (r: Result<Self, D::Error>);
        }
        // whether deserializing (and ignoring) everything the deserializer holds succeeds
        pub uninterp spec fn de_accepts<D>(d: &D) -> bool;
        pub struct IgnoredAny;
        impl<'de> Deserialize<'de> for IgnoredAny {
            #[verifier::external_body]
            fn deserialize<D: Deserializer<'de>>(d: D) -> (r: Result<Self, D::Error>)
                ensures (r is Ok) == de_accepts(&d),
            { unimplemented!() }
        }
    }
    pub mod ser { pub trait Serialize {} }
    pub use de::Deserialize;
}
use serde::{de, ser, Deserialize};

// ---- stand-in for the toml crate (ASSUMED contracts) ----
pub mod toml {
    use vstd::prelude::*;
    use vstd::string::StringSliceAdditionalSpecFns;
    #[verifier::external_body] pub struct Table { _t: () }
    #[verifier::external_body] pub struct Datetime { _t: () }
    pub enum Value { String(String), Integer(i64), Float(f64), Boolean(bool), Datetime(Datetime), Array(Vec<Value>), Table(Table) }
    // the text toml::to_string_pretty produces for a table: one complete TOML document
    pub uninterp spec fn toml_text(t: &Table) -> Seq<u8>;
    pub mod ser { #[verifier::external_body] pub struct Error { _e: () } }
    pub mod de { #[verifier::external_body] pub struct Error { _e: () } impl crate::serde::de::Error for Error {} }
    #[verifier::external_body]
    pub fn to_string_pretty(t: &Table) -> (r: Result<String, ser::Error>)
        ensures r matches Ok(s) ==> crate::string_bytes(&s) == toml_text(t),
    { unimplemented!() }
    impl<'de> crate::serde::de::Deserialize<'de> for Value {
        #[verifier::external_body]
        fn deserialize<D: crate::serde::de::Deserializer<'de>>(d: D) -> (r: Result<Self, D::Error>) { unimplemented!() }
    }
    impl Value {
        #[verifier::external_body]
        pub fn try_from<T: crate::serde::ser::Serialize>(value: T) -> (r: Result<Value, ser::Error>) { unimplemented!() }
    }
    #[verifier::external_body] pub struct Deserializer<'a> { _d: std::marker::PhantomData<&'a str> }
    pub uninterp spec fn toml_ok(text: Seq<u8>) -> bool;
    // the text a TOML deserializer was built over
    pub uninterp spec fn td_src<'a>(d: &Deserializer<'a>) -> Seq<u8>;
    impl<'a> Deserializer<'a> {
        #[verifier::external_body]
        pub fn new(s: &'a str) -> (d: Self) ensures crate::serde::de::de_accepts(&d) == toml_ok(s.spec_bytes()), td_src(&d) == s.spec_bytes(), { unimplemented!() }
    }
    impl<'a> crate::serde::de::Deserializer<'a> for Deserializer<'a> { type Error = de::Error; }
}

// ---- crate::Error and the conversions the code relies on ----
#[verifier::external_body]
pub struct Error { _e: () }
pub type Result<T, E = Error> = std::result::Result<T, E>;
impl From<std::str::Utf8Error> for Error { #[verifier::external_body] fn from(e: std::str::Utf8Error) -> Self { unimplemented!() } }
impl From<std::io::Error> for Error { #[verifier::external_body] fn from(e: std::io::Error) -> Self { unimplemented!() } }
impl From<toml::ser::Error> for Error { #[verifier::external_body] fn from(e: toml::ser::Error) -> Self { unimplemented!() } }
impl<E: de::Error + Send + Sync + 'static> From<E> for Error { #[verifier::external_body] fn from(e: E) -> Self { unimplemented!() } }

trait Output {
    fn transcode_from<'de, D, E>(&mut self, de: D) -> Result<()>
    where
        D: de::Deserializer<'de, Error = E>,
        E: de::Error + Send + Sync + 'static;
    fn transcode_value<S>(&mut self, value: S) -> Result<()>
    where
        S: ser::Serialize;
    fn flush(&mut self) -> io::Result<()>;
}

pub mod input {
    use vstd::prelude::*;
    use std::io::Read;
    #[verifier::external_body]
    #[verifier::reject_recursive_types(R)]
    pub struct CaptureReader<R> { _r: std::marker::PhantomData<R> }
    #[verifier::external_body]
    pub struct Handle<'i> { _h: std::marker::PhantomData<&'i [u8]> }
    // every byte of the input behind a handle (for a reader: everything it delivers up to its end)
    pub uninterp spec fn handle_bytes<'i>(h: Handle<'i>) -> Seq<u8>;
    // stand-in for `impl TryFrom<Handle> for Cow<[u8]>` (its contract is proved in U-CAP-V): the whole input, or the reader's error
    #[verifier::external_body]
    pub fn handle_into_cow<'i>(h: Handle<'i>) -> (r: std::io::Result<std::borrow::Cow<'i, [u8]>>)
        ensures r matches Ok(c) ==> crate::cow_ref(&c)@ == handle_bytes(h),
    { unimplemented!() }
'''

REF_TAIL = r'''
    // what Ref::prefix(size_hint) hands back from this state (a reader's answer is taken as a function of its state)
    pub uninterp spec fn ref_prefix<'i, 'h>(r: Ref<'i, 'h>, size_hint: usize) -> std::io::Result<Seq<u8>>;
    impl<'i, 'h> Ref<'i, 'h> where 'i: 'h {
        // stand-in for Ref::prefix (its own contract is proved in U-CAP-V)
        #[verifier::external_body]
        pub fn prefix(&mut self, size_hint: usize) -> (r: std::io::Result<&[u8]>)
            ensures
                r matches Ok(p) ==> ref_prefix(*old(self), size_hint) == Ok::<Seq<u8>, std::io::Error>(p@),
                r matches Err(e) ==> ref_prefix(*old(self), size_hint) == Err::<Seq<u8>, std::io::Error>(e),
                *old(self) matches Ref::Slice(b) ==> (r matches Ok(p) && p@ == b@),
        { unimplemented!() }
    }
}
use input::Ref;

// one Output call seen from outside: (used, write_all log) before and after
pub open spec fn step_ok(u0: bool, l0: Seq<Seq<u8>>, u1: bool, l1: Seq<Seq<u8>>, ok: bool) -> bool {
    &&& u1
    &&& u0 ==> l1 == l0 && !ok
    &&& !u0 ==> (l1 == l0 && !ok) || exists|t: toml::Table| l1 == l0.push(toml::toml_text(&t))
}
// the TOML verdict on a byte string
pub open spec fn verdict(b: Seq<u8>) -> bool { utf8_ok(b) && toml::toml_ok(b) }
pub open spec fn size_cutoff() -> usize { 2097152 }
// the extracted items live in a module of their own, like src/toml.rs in the crate (`crate::Output` is the trait, `Output` the struct)
pub mod toml_rs {
use super::*;
'''
ERR_FROM = r'''
pub uninterp spec fn err_of_toml_output(e: TomlOutputError) -> Error;
impl vstd::std_specs::convert::FromSpecImpl<TomlOutputError> for Error {
    open spec fn obeys_from_spec() -> bool { true }
    open spec fn from_spec(e: TomlOutputError) -> Error { err_of_toml_output(e) }
}
impl From<TomlOutputError> for Error { #[verifier::external_body] fn from(e: TomlOutputError) -> (r: Self) ensures r == err_of_toml_output(e), { unimplemented!() } }
'''

LEMMAS = r'''
// C08 over ANY history: states s_0 .. s_n of one TOML output, s_0 fresh (unused), consecutive states linked by a
// transcode_from / transcode_value call (step_ok) or a flush (nothing changes): the writer has received nothing, or exactly
// one buffer which is one complete document -- and once something was written no later call writes again.
pub open spec fn linked(us: Seq<bool>, ls: Seq<Seq<Seq<u8>>>, i: int) -> bool {
    step_ok(us[i], ls[i], us[i + 1], ls[i + 1], true) || step_ok(us[i], ls[i], us[i + 1], ls[i + 1], false) || (us[i + 1] == us[i] && ls[i + 1] == ls[i])
}
pub proof fn lemma_at_most_one_document(us: Seq<bool>, ls: Seq<Seq<Seq<u8>>>, n: int)
    requires
        us.len() == ls.len(), 0 <= n < us.len(), !us[0],
        forall|i: int| 0 <= i < us.len() - 1 ==> #[trigger] linked(us, ls, i),
    ensures
        ls[n] == ls[0] || (us[n] && exists|t: toml::Table| ls[n] == ls[0].push(toml::toml_text(&t))),
        !us[n] ==> ls[n] == ls[0],
    decreases n,
{
    if n > 0 {
        lemma_at_most_one_document(us, ls, n - 1);
        assert(linked(us, ls, n - 1));
    }
}
'''

NEW_SPEC = 'ensures !o.used_v(), o.w_v() == w,'
EOU_SPEC = '''ensures
        old(self).used ==> r == Err::<(), Error>(err_of_toml_output(TomlOutputError::MultiDocument)) && *final(self) == *old(self),
        !old(self).used ==> r is Ok && final(self).used && final(self).w == old(self).w,'''
OV_SPEC = '''ensures
        final(self).used == old(self).used,
        w_misc(&final(self).w) == w_misc(&old(self).w),
        !(value is Table) ==> r == Err::<(), Error>(err_of_toml_output(TomlOutputError::NonTableRoot)) && final(self).w == old(self).w,
        value matches toml::Value::Table(t) ==> {
            &&& wa_log(&final(self).w) == wa_log(&old(self).w) || wa_log(&final(self).w) == wa_log(&old(self).w).push(toml::toml_text(t))
            &&& r is Ok ==> wa_log(&final(self).w) == wa_log(&old(self).w).push(toml::toml_text(t))
        },'''
TF_SPEC = '''ensures
        step_ok(old(self).used_v(), old(self).log_v(), final(self).used_v(), final(self).log_v(), r is Ok),
        r is Ok ==> final(self).log_v().len() == old(self).log_v().len() + 1,
        final(self).misc_v() == old(self).misc_v(),'''
FLUSH_SPEC = '''ensures final(self).used_v() == old(self).used_v(), final(self).log_v() == old(self).log_v(), final(self).misc_v() == old(self).misc_v(),'''
IM_SPEC = '''ensures
        input matches Ref::Slice(b) ==> (r matches Ok(v) && v == verdict(b@)),
        input is Reader ==> (match input::ref_prefix(input, size_cutoff()) {
            Ok(p) => r matches Ok(v) && v == (p.len() < size_cutoff() && verdict(p)),
            Err(e) => r matches Err(e2) && e2 == e,
        }),'''

SRC = 'repo:src/toml.rs'
# (T14) `::toml::` names the external crate; in the single generated file the stand-in is the root module `toml`
EXT = dict(find=r'::toml::', to='toml::')
# (T12') a `const` whose initialiser calls an exec function (usize::pow) becomes an `exec const` with its value as postcondition
CUTOFF = dict(find=r'const\s+SIZE_CUTOFF\s*:\s*usize\s*=\s*([^;]+);', to=r'exec const SIZE_CUTOFF: usize ensures SIZE_CUTOFF == 2097152 { \1 }', expand=True, required=True)
OI = r'\bimpl\s*<W:\s*Write>\s+Output\s*<W>'
OT = r'\bimpl\s*<W:\s*Write>\s+crate::Output\s+for\s+Output\s*<W>'

ITEMS = [
    dict(src='repo:src/input.rs', kind='enum', name='Ref', drop_vis=True, wrap=('    pub', '')),
    dict(raw=REF_TAIL),
    dict(src=SRC, kind='enum', name='TomlOutputError', keep_attrs=False, wrap=('pub', '')),   # made visible to the root module (Verus prunes private types per module)
    dict(raw=ERR_FROM),
    dict(src=SRC, kind='struct', name='Output'),
    dict(raw='''impl<W: Write> Output<W> {
    pub closed spec fn used_v(&self) -> bool { self.used }
    pub closed spec fn w_v(&self) -> W { self.w }
    pub closed spec fn log_v(&self) -> Seq<Seq<u8>> { wa_log(&self.w) }
    pub closed spec fn misc_v(&self) -> nat { w_misc(&self.w) }'''),
    dict(src=SRC, kind='fn', name='new', within_impl=OI, contract=dict(ret='o', spec=NEW_SPEC)),
    dict(src=SRC, kind='fn', name='ensure_one_use', within_impl=OI, contract=dict(ret='r', spec=EOU_SPEC)),
    dict(src=SRC, kind='fn', name='output_value', within_impl=OI, contract=dict(ret='r', spec=OV_SPEC, rewrites=[EXT])),
    dict(raw='}\nimpl<W: Write> crate::Output for Output<W> {'),
    dict(src=SRC, kind='fn', name='transcode_from', within_impl=OT, contract=dict(ret='r', spec=TF_SPEC, rewrites=[EXT])),
    dict(src=SRC, kind='fn', name='transcode_value', within_impl=OT, contract=dict(ret='r', spec=TF_SPEC, rewrites=[EXT])),
    dict(src=SRC, kind='fn', name='flush', within_impl=OT, contract=dict(ret='r', spec=FLUSH_SPEC)),
    dict(raw='}'),
    # toml::transcode: the deserializer handed to the output is built over EVERY byte of the input, and it is offered exactly once
    dict(src=SRC, kind='fn', name='transcode',
         contract=dict(ret='r', spec='ensures true,', prologue='let ghost h0 = input;',
                       rewrites=[EXT, dict(find=r'input\s*\.\s*try_into\s*\(\s*\)', to='input::handle_into_cow(input)', required=True)],   # (T6'') `.try_into()` -> the stand-in conversion
                       inserts=[dict(before=r'output\s*\.\s*transcode_from\s*\(', text='proof { assert(toml::td_src(&de) == input::handle_bytes(h0)); }')])),
    dict(src=SRC, kind='fn', name='input_matches', contract=dict(ret='r', spec=IM_SPEC, rewrites=[EXT, CUTOFF])),
    dict(raw='}'),
]

CONSTS = []
FOOTER = '''
} // verus!
fn main() {}
'''
