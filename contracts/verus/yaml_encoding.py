"""U-ENC-V: Verus contracts (unbounded: every buffer size, every number of characters, every SIZE) for the
re-encoder of src/yaml/encoding.rs: ArrayBuffer<SIZE>::{new, unread, is_empty, set, read, fill_buf, consume, write},
Utf8Encoder::{new, next_char, read}.

The character source `S: Iterator<Item = io::Result<char>>` is modelled by vstd's prophetic iterator specification
(`remaining()` = the items the iterator is going to yield); `char::encode_utf8` is given an assumed specification
against `utf8_bytes`, an independent bit-arithmetic definition of UTF-8 (RFC 3629 table).

What the extraction changes: `read` / `write` / `fill_buf` / `consume` are taken out of their `impl Read / Write / BufRead
for ..` blocks and placed in inherent impls (Verus cannot attach a precondition to a method of an external trait).
Dropped: Encoding::detect, Encoder, Utf16Decoder, Utf32Decoder, Endianness, EncodingError (Kani units U-ENC-D/16/32/R).
"""
from . import std_specs as S

HEADER = S.CRATE_ATTRS + r'''// GENERATED on every run by /verif/bin/vcheck -- do not edit.  Executable items below are extracted
// verbatim from the working tree; ghost insertions are wrapped in /*@G<*/ ... /*@G>*/ markers.
use vstd::prelude::*;
use vstd::std_specs::iter::IteratorSpec;
use vstd::string::StringSliceAdditionalSpecFns;
use std::cmp::min;
use std::io::{self, BufRead, Read, Write};
verus! {
global size_of usize == 8;
''' + S.IO_TRAITS + S.MIN + r'''
// ---- UTF-8 by the book (RFC 3629 section 3), independent of the code under contract ----
pub open spec fn utf8_bytes(c: char) -> Seq<u8> {
    let u = c as u32;
    if u < 0x80 { seq![u as u8] }
    else if u < 0x800 { seq![(0xC0 | (u >> 6)) as u8, (0x80 | (u & 0x3F)) as u8] }
    else if u < 0x10000 { seq![(0xE0 | (u >> 12)) as u8, (0x80 | ((u >> 6) & 0x3F)) as u8, (0x80 | (u & 0x3F)) as u8] }
    else { seq![(0xF0 | (u >> 18)) as u8, (0x80 | ((u >> 12) & 0x3F)) as u8, (0x80 | ((u >> 6) & 0x3F)) as u8, (0x80 | (u & 0x3F)) as u8] }
}
pub proof fn lemma_utf8_len(c: char)
    ensures 1 <= utf8_bytes(c).len() <= 4,
{ }
// ASSUMED: char::encode_utf8 writes exactly utf8_bytes(c) at the start of dst, leaves the rest alone, and returns a str of that length
pub assume_specification [char::encode_utf8] (c: char, dst: &mut [u8]) -> (r: &mut str)
    requires old(dst)@.len() >= utf8_bytes(c).len(),
    ensures final(dst)@.len() == old(dst)@.len(),
        final(dst)@.subrange(0, utf8_bytes(c).len() as int) == utf8_bytes(c),
        final(dst)@.subrange(utf8_bytes(c).len() as int, old(dst)@.len() as int) == old(dst)@.subrange(utf8_bytes(c).len() as int, old(dst)@.len() as int),
        r.spec_bytes() == utf8_bytes(c),
;

// the UTF-8 encoding of a run of successfully decoded characters
pub open spec fn utf8_seq(items: Seq<std::io::Result<char>>) -> Seq<u8>
    decreases items.len()
{
    if items.len() == 0 { Seq::empty() } else {
        utf8_seq(items.drop_last()) + (match items.last() { Ok(c) => utf8_bytes(c), Err(_) => Seq::empty() })
    }
}
pub open spec fn all_ok(items: Seq<std::io::Result<char>>) -> bool {
    forall|i: int| 0 <= i < items.len() ==> (#[trigger] items[i]) is Ok
}
// what the encoder will see: the source's items with ONE leading U+FEFF dropped, iff nothing has been read yet
pub open spec fn strip_bom(started: bool, items: Seq<std::io::Result<char>>) -> Seq<std::io::Result<char>> {
    if !started && items.len() > 0 && (items[0] matches Ok(c) && c == '\u{FEFF}') { items.drop_first() } else { items }
}
pub proof fn lemma_utf8_seq_push(items: Seq<std::io::Result<char>>, k: int, c: char)
    requires 0 <= k < items.len(), items[k] == Ok::<char, std::io::Error>(c),
    ensures utf8_seq(items.take(k + 1)) == utf8_seq(items.take(k)) + utf8_bytes(c),
{
    assert(items.take(k + 1).drop_last() =~= items.take(k));
    assert(items.take(k + 1).last() == items[k]);
}
pub proof fn lemma_all_ok_push(items: Seq<std::io::Result<char>>, k: int)
    requires 0 <= k < items.len(), all_ok(items.take(k)), items[k] is Ok,
    ensures all_ok(items.take(k + 1)),
{
    assert forall|i: int| 0 <= i < items.take(k + 1).len() implies (#[trigger] items.take(k + 1)[i]) is Ok by {
        if i < k { assert(items.take(k)[i] == items[i]); }
    }
}
'''

AB_VIEW = r'''
    spec fn wf(&self) -> bool { self.pos <= self.len <= SIZE }
    spec fn unread_v(&self) -> Seq<u8> { self.buf@.subrange(self.pos as int, self.len as int) }
'''
AB_NEW = 'ensures r.wf(), r.unread_v().len() == 0,'
AB_UNREAD = 'requires self.wf(),\n    ensures r@ == self.unread_v(),'
AB_EMPTY = 'requires self.wf(),\n    ensures r == (self.unread_v().len() == 0),'
# the documented panic condition of `set` is its precondition: every caller is checked against it (C04)
AB_SET = 'requires buf@.len() <= SIZE,\n    ensures final(self).wf(), final(self).unread_v() == buf@,'
AB_READ = '''requires old(self).wf(),
    ensures final(self).wf(), final(buf)@.len() == old(buf)@.len(),
        r matches Ok(n) && n == (if old(self).unread_v().len() <= old(buf)@.len() { old(self).unread_v().len() } else { old(buf)@.len() })
          && final(buf)@.subrange(0, n as int) == old(self).unread_v().subrange(0, n as int)
          && final(buf)@.subrange(n as int, old(buf)@.len() as int) == old(buf)@.subrange(n as int, old(buf)@.len() as int)
          && final(self).unread_v() == old(self).unread_v().subrange(n as int, old(self).unread_v().len() as int),'''
AB_FILL = 'requires old(self).wf(),\n    ensures r matches Ok(s) && s@ == old(self).unread_v(), *final(self) == *old(self),'
AB_CONSUME = '''requires old(self).wf(), amt <= old(self).unread_v().len(),
    ensures final(self).wf(), final(self).unread_v() == old(self).unread_v().subrange(amt as int, old(self).unread_v().len() as int),'''
AB_WRITE = '''requires old(self).wf(),
    ensures final(self).wf(),
        r matches Ok(n) && n == (if SIZE - old(self).len <= buf@.len() { (SIZE - old(self).len) as int } else { buf@.len() as int })
          && final(self).unread_v() == old(self).unread_v() + buf@.subrange(0, n as int),'''

ENC_VIEW = r'''
    // the items this encoder is still going to take from its source (prophetic), after BOM stripping
    #[verifier::prophetic]
    spec fn eff(&self) -> Seq<io::Result<char>> { strip_bom(self.started, self.source.remaining()) }
'''
ENC_NEW = 'ensures !r.started, r.remainder.wf(), r.remainder.unread_v().len() == 0, r.source == source,'
# C07: one leading U+FEFF is skipped exactly once, at the very start; every other item is passed on unchanged, in order
NEXT_CHAR = '''requires old(self).source.obeys_prophetic_iter_laws(),
    ensures final(self).source.obeys_prophetic_iter_laws(), final(self).started, final(self).remainder == old(self).remainder,
        old(self).eff().len() > 0 ==> r == Some(old(self).eff()[0]) && final(self).eff() == old(self).eff().drop_first(),
        old(self).eff().len() == 0 ==> r is None && final(self).eff().len() == 0,'''

# C07 / C02 / C04 / C05 / C12 -- the step contract of the re-encoder, for EVERY buffer size and EVERY character sequence,
# from ANY state (any remainder, started or not):
#   n items are taken from the source; on Ok(w) all of them were characters, and
#       (old remainder) ++ utf8(those characters) == (the w bytes handed out) ++ (new remainder)
#   -- no byte lost, duplicated, reordered or invented; at most 3 bytes are held back, and only when the buffer is full;
#   Ok(0) for a non-empty buffer only at the end of the source; a source error is returned as itself, never swallowed.
ENC_READ = '''requires old(self).source.obeys_prophetic_iter_laws(), old(self).remainder.wf(),
        old(buf)@.len() <= usize::MAX,   // machine fact about every real slice (vstd has no axiom for it)
    ensures final(self).source.obeys_prophetic_iter_laws(), final(self).remainder.wf(),
        final(buf)@.len() == old(buf)@.len(),
        ({
            let e0 = old(self).eff();
            let n = e0.len() - final(self).eff().len();
            let rem0 = old(self).remainder.unread_v();
            &&& 0 <= n <= e0.len()
            &&& final(self).eff() == e0.skip(n)
            &&& (r matches Ok(w) ==> {
                    &&& w <= old(buf)@.len()
                    &&& all_ok(e0.take(n))
                    &&& rem0 + utf8_seq(e0.take(n)) == final(buf)@.subrange(0, w as int) + final(self).remainder.unread_v()
                    &&& (final(self).remainder.unread_v().len() > 0 ==> w == old(buf)@.len())
                    &&& final(self).remainder.unread_v().len() <= 3 || final(self).remainder.unread_v().len() <= rem0.len()
                    &&& (w == 0 && old(buf)@.len() > 0 ==> final(self).eff().len() == 0)
                })
            &&& (r matches Err(e) ==> n >= 1 && all_ok(e0.take(n - 1)) && e0[n - 1] == Err::<char, io::Error>(e))
        }),'''

READ_PROLOGUE = '''broadcast use axiom_min_usize;
    let ghost n0: int = buf@.len() as int;
    let ghost rem0 = self.remainder.unread_v();
    let ghost mut out: Seq<u8> = Seq::empty();
    let ghost mut cnt: int = 0;
    proof { assert(old(self).eff().skip(0) =~= old(self).eff()); assert(old(self).eff().take(0) =~= Seq::empty()); }'''

COMMON_INV = '''self.source.obeys_prophetic_iter_laws(), self.remainder.wf(),
        n0 == old(buf)@.len(), n0 <= usize::MAX, written + buf@.len() == n0, out.len() == written,
        final(old(buf))@ == out + final(buf)@,
        0 <= cnt <= old(self).eff().len(), self.eff() == old(self).eff().skip(cnt), all_ok(old(self).eff().take(cnt)),
        rem0 == old(self).remainder.unread_v(),'''
LOOP0_INV = 'invariant ' + COMMON_INV + '''
        self.remainder.unread_v().len() == 0,
        rem0 + utf8_seq(old(self).eff().take(cnt)) == out,
    decreases buf@.len(),'''
LOOP1_INV = 'invariant ' + COMMON_INV + '''
        self.remainder.unread_v().len() > 0 ==> buf@.len() == 0,
        self.remainder.unread_v().len() <= 3,
        rem0 + utf8_seq(old(self).eff().take(cnt)) == out + self.remainder.unread_v(),
    decreases buf@.len(),'''

AFTER_REM_READ = '''proof {
    out = rem0.subrange(0, len as int);
    assert(rem0 =~= rem0.subrange(0, len as int) + rem0.subrange(len as int, rem0.len() as int));
}'''
# after `let ch = match self.next_char() {...};` in either loop: one more item (a character) has been taken
AFTER_CH = '''proof {
    lemma_utf8_len(ch);
    lemma_utf8_seq_push(old(self).eff(), cnt, ch);
    lemma_all_ok_push(old(self).eff(), cnt);
    assert(old(self).eff().skip(cnt).drop_first() =~= old(self).eff().skip(cnt + 1));
    cnt = cnt + 1;
}'''
AFTER_ENC0 = '''proof { out = out + utf8_bytes(ch); }'''
AFTER_EMIT = '''proof { out = out + utf8_bytes(ch).subrange(0, emit_len as int);
    assert(utf8_bytes(ch) =~= utf8_bytes(ch).subrange(0, emit_len as int) + utf8_bytes(ch).subrange(emit_len as int, char_len as int)); }'''

SRC = 'repo:src/yaml/encoding.rs'
ABI = r'\bimpl\s*<const\s+SIZE:\s*usize>\s+ArrayBuffer\s*<SIZE>'
ABR = r'\bimpl\s*<const\s+SIZE:\s*usize>\s+Read\s+for\s+ArrayBuffer\s*<SIZE>'
ABB = r'\bimpl\s*<const\s+SIZE:\s*usize>\s+BufRead\s+for\s+ArrayBuffer\s*<SIZE>'
ABW = r'\bimpl\s*<const\s+SIZE:\s*usize>\s+Write\s+for\s+ArrayBuffer\s*<SIZE>'
U8I = r'\bimpl\s*<S>\s+Utf8Encoder\s*<S>'
U8R = r'\bimpl\s*<S>\s+Read\s+for\s+Utf8Encoder\s*<S>'

ITEMS = [
    dict(src=SRC, kind='const', name='MAX_UTF8_ENCODED_LEN'),
    dict(src=SRC, kind='struct', name='ArrayBuffer'),
    dict(raw='impl<const SIZE: usize> ArrayBuffer<SIZE> {' + AB_VIEW),
    dict(src=SRC, kind='fn', name='new', within_impl=ABI, contract=dict(ret='r', spec=AB_NEW)),
    dict(src=SRC, kind='fn', name='unread', within_impl=ABI, contract=dict(ret='r', spec=AB_UNREAD)),
    dict(src=SRC, kind='fn', name='is_empty', within_impl=ABI, contract=dict(ret='r', spec=AB_EMPTY)),
    dict(src=SRC, kind='fn', name='set', within_impl=ABI, contract=dict(spec=AB_SET)),
    dict(src=SRC, kind='fn', name='read', within_impl=ABR, contract=dict(ret='r', spec=AB_READ, prologue='broadcast use axiom_min_usize;')),
    dict(src=SRC, kind='fn', name='fill_buf', within_impl=ABB, contract=dict(ret='r', spec=AB_FILL)),
    dict(src=SRC, kind='fn', name='consume', within_impl=ABB, contract=dict(spec=AB_CONSUME)),
    dict(src=SRC, kind='fn', name='write', within_impl=ABW, contract=dict(ret='r', spec=AB_WRITE, prologue='broadcast use axiom_min_usize;')),
    dict(raw='}'),
    dict(src=SRC, kind='struct', name='Utf8Encoder'),
    dict(raw='impl<S> Utf8Encoder<S>\nwhere\n\tS: Iterator<Item = io::Result<char>>,\n{' + ENC_VIEW),
    dict(src=SRC, kind='fn', name='new', within_impl=U8I, contract=dict(ret='r', spec=ENC_NEW)),
    dict(src=SRC, kind='fn', name='next_char', within_impl=U8I, contract=dict(ret='r', spec=NEXT_CHAR)),
    dict(src=SRC, kind='fn', name='read', within_impl=U8R,
         contract=dict(ret='r', spec=ENC_READ, prologue=READ_PROLOGUE, attrs=['#[verifier::rlimit(60)]'],   # headroom: a harmless edit must not tip the query over the default limit
                      
                       loops=[dict(ordinal=0, kind='while', clauses=LOOP0_INV), dict(ordinal=1, kind='while', clauses=LOOP1_INV)],
                       inserts=[dict(after=r'let\s+len\s*=\s*self\s*\.\s*remainder\s*\.\s*read\s*\(\s*buf\s*\)\s*\?\s*;', text=AFTER_REM_READ),
                                dict(after=r'let\s+len\s*=\s*ch\s*\.\s*encode_utf8\s*\(\s*buf\s*\)\s*\.\s*len\s*\(\s*\)\s*;', text=AFTER_ENC0),
                                dict(before=r'let\s+emit_len\s*=\s*min\s*\(', text='proof { axiom_min_usize(char_len, buf@.len() as usize); }'),
                                dict(after=r'buf\s*\[\s*\.\.\s*emit_len\s*\]\s*\.\s*copy_from_slice\s*\([^;]*;', text=AFTER_EMIT)],
                       inserts_all=[dict(after=r'let\s+ch\s*=\s*match\s+self\s*\.\s*next_char\s*\(\s*\)\s*\{[^}]*\}\s*;', text=AFTER_CH, count=2)])),
    dict(raw='}'),
]

CONSTS = []

# ---------------------------------------------------------------------------------------------------------
# From the step contract to the stream (C07 / C02): any sequence of read() calls, with any buffer sizes, hands
# out exactly utf8(text) in order.  `enc_step` is the Ok-branch of ENC_READ over abstract states
# (pending remainder, characters still to come); the theorem is by induction over the calls.
# ---------------------------------------------------------------------------------------------------------
LEMMAS = r'''
pub struct EncAbs { pub rem: Seq<u8>, pub todo: Seq<std::io::Result<char>> }

pub open spec fn enc_step(a: EncAbs, b: EncAbs, out: Seq<u8>) -> bool {
    let n = a.todo.len() - b.todo.len();
    &&& 0 <= n <= a.todo.len()
    &&& b.todo == a.todo.skip(n)
    &&& all_ok(a.todo.take(n))
    &&& a.rem + utf8_seq(a.todo.take(n)) == out + b.rem
}
pub open spec fn enc_chain(states: Seq<EncAbs>, outs: Seq<Seq<u8>>) -> bool {
    &&& states.len() == outs.len() + 1
    &&& forall|i: int| 0 <= i < outs.len() ==> enc_step(#[trigger] states[i], states[i + 1], outs[i])
}
pub open spec fn cat(outs: Seq<Seq<u8>>) -> Seq<u8>
    decreases outs.len()
{
    if outs.len() == 0 { Seq::<u8>::empty() } else { cat(outs.drop_last()) + outs.last() }
}
pub proof fn lemma_utf8_seq_concat(a: Seq<std::io::Result<char>>, b: Seq<std::io::Result<char>>)
    ensures utf8_seq(a + b) == utf8_seq(a) + utf8_seq(b),
    decreases b.len()
{
    if b.len() == 0 {
        assert(a + b =~= a);
    } else {
        assert((a + b).drop_last() =~= a + b.drop_last());
        assert((a + b).last() == b.last());
        lemma_utf8_seq_concat(a, b.drop_last());
    }
}
pub proof fn lemma_skip_take_split(t: Seq<std::io::Result<char>>, m: int, n: int)
    requires 0 <= m, 0 <= n, m + n <= t.len(),
    ensures t.skip(m).skip(n) =~= t.skip(m + n), t.take(m + n) =~= t.take(m) + t.skip(m).take(n),
{ }
pub proof fn lemma_all_ok_concat(x: Seq<std::io::Result<char>>, y: Seq<std::io::Result<char>>)
    requires all_ok(x), all_ok(y),
    ensures all_ok(x + y),
{
    assert forall|i: int| 0 <= i < (x + y).len() implies (#[trigger] (x + y)[i]) is Ok by {
        if i < x.len() { assert((x + y)[i] == x[i]); } else { assert((x + y)[i] == y[i - x.len()]); }
    }
}
pub proof fn lemma_bytes_assoc(c1: Seq<u8>, ar: Seq<u8>, u: Seq<u8>, o: Seq<u8>, br: Seq<u8>, big: Seq<u8>)
    requires c1 + ar == big, ar + u == o + br,
    ensures (c1 + o) + br == big + u,
{
    assert((c1 + o) + br =~= c1 + (o + br));
    assert(c1 + (ar + u) =~= (c1 + ar) + u);
}
// after any number of reads starting from an empty remainder: everything handed out, followed by what is still held
// back, is the UTF-8 encoding of exactly the characters taken from the source so far
pub proof fn theorem_reads_concatenate_to_utf8_of_text(states: Seq<EncAbs>, outs: Seq<Seq<u8>>)
    requires enc_chain(states, outs), states[0].rem.len() == 0,
    ensures ({
        let t0 = states[0].todo;
        let taken = t0.len() - states.last().todo.len();
        &&& 0 <= taken <= t0.len()
        &&& states.last().todo == t0.skip(taken)
        &&& all_ok(t0.take(taken))
        &&& cat(outs) + states.last().rem == utf8_seq(t0.take(taken))
    }),
    decreases outs.len()
{
    let t0 = states[0].todo;
    if outs.len() == 0 {
        assert(t0.skip(0) =~= t0);
        assert(t0.take(0) =~= Seq::empty());
        assert(cat(outs) + states.last().rem =~= Seq::<u8>::empty());
    } else {
        let s1 = states.drop_last();
        let o1 = outs.drop_last();
        assert(enc_chain(s1, o1)) by {
            assert forall|i: int| 0 <= i < o1.len() implies enc_step(#[trigger] s1[i], s1[i + 1], o1[i]) by {
                assert(s1[i] == states[i]); assert(s1[i + 1] == states[i + 1]); assert(o1[i] == outs[i]);
            }
        }
        assert(s1[0] == states[0]);
        theorem_reads_concatenate_to_utf8_of_text(s1, o1);
        let k = outs.len() - 1;
        let a = states[k]; let b = states[k + 1];
        assert(enc_step(a, b, outs[k]));
        assert(s1.last() == a); assert(states.last() == b);
        let m = t0.len() - a.todo.len();
        let n = a.todo.len() - b.todo.len();
        lemma_skip_take_split(t0, m, n);
        lemma_utf8_seq_concat(t0.take(m), a.todo.take(n));
        lemma_all_ok_concat(t0.take(m), a.todo.take(n));
        assert(cat(outs) == cat(o1) + outs.last());
        lemma_bytes_assoc(cat(o1), a.rem, utf8_seq(a.todo.take(n)), outs[k], b.rem, utf8_seq(t0.take(m)));
    }
}
'''

FOOTER = '''
} // verus!
fn main() {}
'''
