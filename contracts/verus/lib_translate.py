"""U-LIB-V: Verus contracts on the verbatim library front end of src/lib.rs: `Translator::{new, translate_slice,
translate_reader, translate, flush}`, the free functions `translate_slice` / `translate_reader`, `Dispatcher::new` and the
forwarding `impl Output for &mut Dispatcher` (all three methods), for every input and every format pair.

  * C09 "identical to naming the format": with `from == Some(f)` the handle goes straight to f's transcode function and
    detection is not consulted at all; with `from == None` the result is exactly what naming the detected format would give
    for the handle as detection left it, "unable to detect" when detection says None, and detection's own error otherwise;
  * C14 / C02: `translate_slice` / `translate_reader` (methods and the two free functions, verbatim) mean exactly `tr_spec`
    on the handle made from THAT slice / reader, with the caller's `from`, on a translator whose target is the caller's `to`
    (the outcome of a format module is a function of (source format, handle, target variant of the output it is given));
  * C03 / C12: the dispatcher created for target T forwards transcode_from / transcode_value / flush to the output of
    format T and to no other, and never changes its variant (one output for the life of the translator).

Stand-ins with ASSUMED contracts: the four format modules (`Output::new`, `transcode`, whose result is an uninterpreted
function of (format, handle, target variant of the output)), `detect::detect_format` (proved by the Kani unit U-DET), `input::Handle`, `crate::Error`,
minimal serde traits.  `Format`, `Dispatcher`, `Translator`, `trait Output` are extracted verbatim.
"""

HEADER = r'''#![allow(unused)]
// GENERATED on every run by /verif/bin/vcheck -- do not edit.  Executable items below are extracted
// verbatim from the working tree; ghost insertions are wrapped in /*@G<*/ ... /*@G>*/ markers.
use vstd::prelude::*;
use std::fmt;
use std::io::{self, Read, Write};
verus! {
#[verifier::external_type_specification] #[verifier::external_body] pub struct ExIoError(std::io::Error);
#[verifier::external_trait_specification]
pub trait ExRead {
    type ExternalTraitSpecificationFor: std::io::Read;
    fn read(&mut self, buf: &mut [u8]) -> (r: std::io::Result<usize>);
}
#[verifier::external_trait_specification]
pub trait ExWrite {
    type ExternalTraitSpecificationFor: std::io::Write;
    fn write(&mut self, buf: &[u8]) -> (r: std::io::Result<usize>);
    fn flush(&mut self) -> (r: std::io::Result<()>);
}
#[verifier::allow(undeclared_external_trait)]
pub assume_specification<T> [std::option::Option::<T>::or] (o: std::option::Option<T>, b: std::option::Option<T>) -> (r: std::option::Option<T>)
    where T: std::marker::Destruct,
    ensures r == (if o is Some { o } else { b });
pub mod serde {
    pub mod de { pub trait Error {} pub trait Deserializer<'de> { type Error; } }
    pub mod ser { pub trait Serialize {} }
}
use serde::{de, ser};
#[verifier::external_body]
pub struct Error { _e: () }
pub type Result<T, E = Error> = std::result::Result<T, E>;
// the error "unable to detect input format" (made from a &str) and errors passed on from detection
pub uninterp spec fn err_of_text(s: &str) -> Error;
pub uninterp spec fn err_of_io(e: std::io::Error) -> Error;
impl<'a> vstd::std_specs::convert::FromSpecImpl<&'a str> for Error {
    open spec fn obeys_from_spec() -> bool { true }
    open spec fn from_spec(s: &'a str) -> Error { err_of_text(s) }
}
impl<'a> From<&'a str> for Error { #[verifier::external_body] fn from(s: &'a str) -> (r: Self) ensures r == err_of_text(s), { unimplemented!() } }
impl vstd::std_specs::convert::FromSpecImpl<std::io::Error> for Error {
    open spec fn obeys_from_spec() -> bool { true }
    open spec fn from_spec(e: std::io::Error) -> Error { err_of_io(e) }
}
impl From<std::io::Error> for Error { #[verifier::external_body] fn from(e: std::io::Error) -> (r: Self) ensures r == err_of_io(e), { unimplemented!() } }

pub mod input {
    use vstd::prelude::*;
    #[verifier::external_body]
    pub struct Handle<'i> { _h: std::marker::PhantomData<&'i [u8]> }
    pub uninterp spec fn slice_handle<'i>(b: &'i [u8]) -> Handle<'i>;
    pub uninterp spec fn reader_handle<'i, R>(r: R) -> Handle<'i>;
    impl<'i> Handle<'i> {
        #[verifier::external_body]
        pub fn from_slice(b: &'i [u8]) -> (h: Handle<'i>) ensures h == slice_handle(b), { unimplemented!() }
        #[verifier::external_body]
        pub fn from_reader<R>(r: R) -> (h: Handle<'i>) where R: std::io::Read + 'i, ensures h == reader_handle::<R>(r), { unimplemented!() }
    }
}
'''

FORMAT_MOD_TEMPLATE = r'''    pub mod @M@ {
        use vstd::prelude::*;
        use super::*;
        #[verifier::external_body]
        #[verifier::accept_recursive_types(W)]
        pub struct Output<W> { _w: std::marker::PhantomData<W> }
        impl<W: std::io::Write> Output<W> {
            #[verifier::external_body]
            pub(crate) fn new(w: W) -> (o: Output<W>) ensures o_log(&o).len() == 0, { unimplemented!() }
        }
        impl<W: std::io::Write> crate::Output for Output<W> {
            #[verifier::external_body]
            fn transcode_from<'de, D, E>(&mut self, de: D) -> (r: Result<()>)
            where D: de::Deserializer<'de, Error = E>, E: de::Error + Send + Sync + 'static,
                ensures o_log(final(self)) == o_log(old(self)).push(1),
            { unimplemented!() }
            #[verifier::external_body]
            fn transcode_value<S>(&mut self, value: S) -> (r: Result<()>) where S: ser::Serialize, ensures o_log(final(self)) == o_log(old(self)).push(2), { unimplemented!() }
            #[verifier::external_body]
            fn flush(&mut self) -> (r: std::io::Result<()>) ensures o_log(final(self)) == o_log(old(self)).push(3), { unimplemented!() }
        }
        #[verifier::external_body]
        pub(crate) fn transcode<'i, O>(input: input::Handle<'i>, output: O) -> (r: Result<()>)
        where O: crate::Output,
            ensures r == tr_outcome(@CODE@, input, out_kind(&output)),
        { unimplemented!() }
    }
'''

FORMAT_MODS = r'''
pub open spec fn fcode(f: Format) -> int { match f { Format::Json => 1, Format::Msgpack => 2, Format::Toml => 3, Format::Yaml => 4 } }
// what translating `h` as format number `code` returns (the format modules are stand-ins; the result is taken to be a
// function of the format and the handle)
pub uninterp spec fn tr_outcome<'i>(code: int, h: input::Handle<'i>, target: int) -> Result<()>;
// which target format the output handed to a format module writes (for `&mut Dispatcher`: the variant it holds)
pub uninterp spec fn out_kind<O>(o: &O) -> int;
// what detection answers for a handle, and the handle as detection leaves it (Kani unit U-DET / U-CAP own these)
pub uninterp spec fn det_result<'i>(h: input::Handle<'i>) -> std::io::Result<Option<Format>>;
pub uninterp spec fn det_handle<'i>(h: input::Handle<'i>) -> input::Handle<'i>;
pub mod detect {
    use vstd::prelude::*;
    use super::*;
    #[verifier::external_body]
    pub(crate) fn detect_format<'i>(input: &mut input::Handle<'i>) -> (r: std::io::Result<Option<Format>>)
        ensures r == det_result(*old(input)), *final(input) == det_handle(*old(input)),
    { unimplemented!() }
}
// ghost log of a per-format output: which of the three Output methods were called, in order (1 = transcode_from, 2 = transcode_value, 3 = flush)
pub uninterp spec fn o_log<O: ?Sized>(o: &O) -> Seq<int>;
'''

TRAIT_SPEC_NOTE = ''

DISP_VIEW = r'''
    // which per-format output this dispatcher holds (1..4) and that output's call log
    spec fn variant(&self) -> int { match self { Dispatcher::Json(_) => 1, Dispatcher::Msgpack(_) => 2, Dispatcher::Toml(_) => 3, Dispatcher::Yaml(_) => 4 } }
    spec fn log(&self) -> Seq<int> { match self { Dispatcher::Json(o) => o_log(o), Dispatcher::Msgpack(o) => o_log(o), Dispatcher::Toml(o) => o_log(o), Dispatcher::Yaml(o) => o_log(o) } }
'''
DNEW_SPEC = 'ensures d.variant() == fcode(to), d.log().len() == 0,'
FWD = lambda code: 'ensures (**final(self)).variant() == (**old(self)).variant(), (**final(self)).log() == (**old(self)).log().push(%d),' % code

TR_SPEC = '''ensures tr_spec(from, input, old(self).variant(), r),'''
# what translating one input means (C09: naming the format == what detection selects; detection is consulted only when no format was named)
TR_SPEC_FN = r'''
#[verifier::external_body]
broadcast proof fn axiom_out_kind_dispatcher<W: Write>(m: &&mut Dispatcher<W>)
    ensures #[trigger] out_kind::<&mut Dispatcher<W>>(m) == (*old(*m)).variant(),
{ }
pub open spec fn tr_spec<'i>(from: Option<Format>, input: input::Handle<'i>, target: int, r: Result<()>) -> bool {
    &&& (from matches Some(f) ==> r == tr_outcome(fcode(f), input, target))
    &&& (from is None ==> (match det_result(input) {
            Ok(Some(f)) => r == tr_outcome(fcode(f), det_handle(input), target),
            Ok(None) => r == Err::<(), Error>(err_of_text("unable to detect input format")),
            Err(e) => r is Err,
        }))
}
'''

SRC = 'repo:src/lib.rs'
TI = r'\bimpl\s*<W>\s+Translator\s*<W>'
DI = r'\bimpl\s*<W>\s+Dispatcher\s*<W>'
OI = r'\bimpl\s*<W>\s+Output\s+for\s+&mut\s+Dispatcher\s*<W>'

ITEMS = [
    dict(src=SRC, kind='enum', name='Format', keep_attrs=False, wrap=('#[derive(Copy, Clone)]', '')),
    dict(src=SRC, kind='trait', name='Output'),
    dict(raw=FORMAT_MODS + ''.join(FORMAT_MOD_TEMPLATE.replace('@M@', m).replace('@CODE@', '%dint' % c) for m, c in [('json', 1), ('msgpack', 2), ('toml', 3), ('yaml', 4)])),
    dict(raw=TR_SPEC_FN),
    dict(src=SRC, kind='enum', name='Dispatcher'),
    dict(src=SRC, kind='struct', name='Translator'),
    dict(raw='impl<W> Dispatcher<W>\nwhere\n\tW: Write,\n{' + DISP_VIEW),
    dict(src=SRC, kind='fn', name='new', within_impl=DI, contract=dict(ret='d', spec=DNEW_SPEC)),
    dict(raw='}\nimpl<W> Output for &mut Dispatcher<W>\nwhere\n\tW: Write,\n{'),
    dict(src=SRC, kind='fn', name='transcode_from', within_impl=OI, contract=dict(ret='r', spec=FWD(1))),
    dict(src=SRC, kind='fn', name='transcode_value', within_impl=OI, contract=dict(ret='r', spec=FWD(2))),
    dict(src=SRC, kind='fn', name='flush', within_impl=OI, contract=dict(ret='r', spec=FWD(3))),
    dict(raw='}\nimpl<W> Translator<W>\nwhere\n\tW: Write,\n{\n    pub closed spec fn variant(&self) -> int { self.0.variant() }\n    pub closed spec fn log(&self) -> Seq<int> { self.0.log() }'),
    dict(src=SRC, kind='fn', name='new', within_impl=TI, contract=dict(ret='t', spec='ensures t.variant() == fcode(to), t.log().len() == 0,')),
    dict(src=SRC, kind='fn', name='translate_slice', within_impl=TI, contract=dict(ret='r', spec='ensures tr_spec(from, input::slice_handle(input), old(self).variant(), r),')),
    dict(src=SRC, kind='fn', name='translate_reader', within_impl=TI, contract=dict(ret='r', spec='ensures tr_spec(from, input::reader_handle::<R>(input), old(self).variant(), r),')),
    dict(src=SRC, kind='fn', name='translate', within_impl=TI, contract=dict(ret='r', spec=TR_SPEC, prologue='broadcast use axiom_out_kind_dispatcher;')),
    # (Translator::flush calls the forwarding impl through a temporary `&mut &mut Dispatcher`; Verus does not connect the
    # nested reference's final value back to `self.0`, so it stays with the Kani harness translator_flush_forwards_to_writer)
    dict(raw='}'),
    # the two public one-shot entry points: the same meaning as the Translator methods, on a translator made for `to`
    dict(src=SRC, kind='fn', name='translate_slice', before=r'\bpub\s+struct\s+Translator\b', contract=dict(ret='r', spec='ensures tr_spec(from, input::slice_handle(input), fcode(to), r),')),
    dict(src=SRC, kind='fn', name='translate_reader', before=r'\bpub\s+struct\s+Translator\b', contract=dict(ret='r', spec='ensures tr_spec(from, input::reader_handle::<R>(input), fcode(to), r),')),
]

CONSTS = []
LEMMAS = ''
FOOTER = '''
} // verus!
fn main() {}
'''
