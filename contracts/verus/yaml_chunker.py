"""U-CHK-V: Verus contracts (unbounded in stream length, document count and read sizes) for src/yaml/chunker.rs:
ChunkReader::{new, trim_to_offset, take_to_offset, read}, Chunker::{new, next}, Document::{content, is_collection};
and for src/yaml.rs: transcode_reader (every chunk offered once, in order) and transcode (the slice fast path is taken only
behind `str::from_utf8(&b)` succeeding AND `Encoding::detect(&b)` saying UTF-8 -- stated as the precondition `yaml_text_ok`
of the stand-in `serde_yaml::Deserializer::from_str` (F2); every document of the slice iterator is offered exactly once and
Ok(()) is returned only after the iterator reported its end; `Input` and `Encoding` are extracted verbatim,
`Encoding::detect` is a stand-in with the table as an uninterpreted spec (its equality with the YAML 1.2.2 table is the Kani unit U-ENC-D);
`Cow::deref` carries an assumed spec (a pure function of the Cow)); and input_matches (the detection verdict is `im_mapping` of the
chunker's answer: Ok(is_collection) for a first document, Ok(false) for an InvalidData error or an empty stream, Err for any
other error -- checked against the PROVED contract of Chunker::next; `Ref` is extracted verbatim, `Ref::prefix`, `Encoder::new`,
`CaptureReader`, `io::Error::kind` and `ErrorKind == ErrorKind` are stand-ins / assumed specs).

The libyaml binding (src/yaml/chunker/parser.rs: Parser, Event) is NOT extracted: it is represented by opaque
stand-in types whose methods carry an ASSUMED contract -- an executable-free statement of what libyaml is
assumed to do (DESIGN section 3, assumption 7): events arrive one at a time with marks that are monotone, within
the bytes delivered so far and on UTF-8 boundaries; libyaml reaches the reader only through the read handler,
i.e. ChunkReader::read (whose contract is proved in this unit); DOCUMENT-END is followed by DOCUMENT-START or
STREAM-END.  `yaml_event_type_t` is extracted verbatim from the unsafe-libyaml version in Cargo.lock.

What the extraction changes (markers in the generated file, undone by the token check):
  * `impl<R> Read for ChunkReader<R>` / `impl<R> Iterator for Chunker<R>`: `read` / `next` are placed in inherent impls;
  * `Self::Item` in the signature of Chunker::next is replaced by the `type Item = ..;` of the same impl (read from the source);
  * `io::Error::new(..)` in Chunker::next is redirected to the stand-in `io_error_new` (assumed: result has the given kind);
  * `.map(Ok)` in Chunker::next is eta-expanded to `.map(|v| Ok(v))` (Verus rejects a constructor used as a function value);
  * (T13) the tail `match chunk {..}` of yaml::input_matches is bound to a name so that a ghost assertion can follow it;
  * `pub(super)` dropped from `enum DocumentKind`; derive / repr attributes of yaml_event_type_t dropped.
"""
from . import std_specs as S

HEADER = S.CRATE_ATTRS + r'''// GENERATED on every run by /verif/bin/vcheck -- do not edit.  Executable items below are extracted
// verbatim from the working tree; ghost insertions are wrapped in /*@G<*/ ... /*@G>*/ markers.
use vstd::prelude::*;
use std::io::{self, BufRead, BufReader, Read};
use std::mem;
use std::str;
use vstd::string::StringSliceAdditionalSpecFns;
verus! {
global size_of usize == 8;
''' + S.IO_TRAITS + r'''
// ---- assumed std specs used by ChunkReader / Chunker ----
#[verifier::reject_recursive_types(A)]
#[verifier::reject_recursive_types(T)]
#[verifier::external_type_specification]
#[verifier::external_body]
pub struct ExDrain<'a, T: 'a, A>(std::vec::Drain<'a, T, A>)
where
A: std::alloc::Allocator,;
pub uninterp spec fn rb_lo<R>(r: R) -> int;
pub uninterp spec fn rb_hi<R>(r: R, len: int) -> int;
#[verifier::external_body]
pub broadcast proof fn axiom_range_to_lo(r: std::ops::RangeTo<usize>)
    ensures #[trigger] rb_lo(r) == 0 {}
#[verifier::external_body]
pub broadcast proof fn axiom_range_to_hi(r: std::ops::RangeTo<usize>, len: int)
    ensures #[trigger] rb_hi(r, len) == r.end {}
// Vec::drain(range): when the returned Drain is dropped (here: at the end of the statement) the range is gone
#[verifier::allow(undeclared_external_trait)]
pub assume_specification<T, A, R> [std::vec::Vec::<T, A>::drain] (v: &mut std::vec::Vec<T, A>, r: R) -> (d: std::vec::Drain<'_, T, A>)
    where
    A: std::alloc::Allocator,
    R: std::ops::RangeBounds<usize>,
    requires 0 <= rb_lo(r) <= rb_hi(r, old(v)@.len() as int) <= old(v)@.len(),
    ensures final(v)@ == old(v)@.subrange(0, rb_lo(r)) + old(v)@.subrange(rb_hi(r, old(v)@.len() as int), old(v)@.len() as int),
;
pub assume_specification<T> [std::mem::replace] (dest: &mut T, src: T) -> (r: T)
    ensures r == *old(dest), *final(dest) == src;

#[verifier::external_type_specification]
#[verifier::external_body]
pub struct ExFromUtf8Error(std::string::FromUtf8Error);
pub uninterp spec fn utf8_ok(b: Seq<u8>) -> bool;
pub uninterp spec fn str_bytes(s: String) -> Seq<u8>;
pub assume_specification [std::string::String::from_utf8] (v: std::vec::Vec<u8>) -> (r: std::result::Result<std::string::String, std::string::FromUtf8Error>)
    ensures utf8_ok(v@) <==> r is Ok, r matches Ok(s) ==> str_bytes(s) == v@;
// io::Error::new cannot be given an assume_specification (Verus rejects its `dyn Error + Send + Sync` bound): calls are
// redirected (marker @X) to this stand-in, whose ASSUMED contract is the documented one: the result has the given kind.
pub uninterp spec fn err_kind(e: &std::io::Error) -> std::io::ErrorKind;
#[verifier::external_body]
pub fn io_error_new<E>(kind: std::io::ErrorKind, error: E) -> (r: std::io::Error)
    ensures err_kind(&r) == kind,
{ unimplemented!() }
#[verifier::external_type_specification]
pub struct ExErrorKind(std::io::ErrorKind);
pub assume_specification [<std::io::ErrorKind as PartialEq>::eq] (a: &std::io::ErrorKind, b: &std::io::ErrorKind) -> (r: bool) ensures r == (*a == *b);
pub assume_specification [std::io::Error::kind] (e: &std::io::Error) -> (k: std::io::ErrorKind) ensures k == err_kind(e);

// ---- crate-level stand-ins used by yaml::transcode_reader (ASSUMED contracts) ----
#[verifier::external_body]
pub struct Error { _e: () }
pub type Result<T, E = Error> = std::result::Result<T, E>;
impl From<std::io::Error> for Error { #[verifier::external_body] fn from(e: std::io::Error) -> Self { unimplemented!() } }
pub mod serde {
    pub mod de { pub trait Error {} pub trait Deserializer<'de> { type Error; } }
    pub mod ser { pub trait Serialize {} }
}
use serde::{de, ser};
pub mod serde_yaml {
    use vstd::prelude::*;
    use vstd::string::StringSliceAdditionalSpecFns;
    #[verifier::external_body] pub struct Error { _e: () }
    impl super::de::Error for Error {}
    #[verifier::external_body] pub struct Deserializer<'de> { _d: std::marker::PhantomData<&'de str> }
    // the text a document deserializer was built over
    pub uninterp spec fn yd_src<'de>(d: &Deserializer<'de>) -> Seq<u8>;
    pub uninterp spec fn yd_yielded<'de>(d: &Deserializer<'de>) -> nat;
    pub uninterp spec fn yd_done<'de>(d: &Deserializer<'de>) -> bool;
    impl<'de> Deserializer<'de> {
        #[verifier::external_body]
        pub fn from_str(s: &'de str) -> (d: Self)
            requires super::yaml_text_ok(s),
            ensures yd_src(&d) == s.spec_bytes(), yd_yielded(&d) == 0, !yd_done(&d),
        { unimplemented!() }
        // a multi-document deserializer is an iterator over per-document deserializers (inherent stand-in for Iterator::next)
        #[verifier::external_body]
        pub fn next(&mut self) -> (r: Option<Deserializer<'de>>)
            requires !yd_done(old(self)),
            ensures r is Some ==> yd_yielded(final(self)) == yd_yielded(old(self)) + 1 && !yd_done(final(self)),
                r is None ==> yd_yielded(final(self)) == yd_yielded(old(self)) && yd_done(final(self)),
        { unimplemented!() }
    }
    impl<'de> super::de::Deserializer<'de> for Deserializer<'de> { type Error = Error; }
}
pub uninterp spec fn de_src<D>(d: &D) -> Seq<u8>;
#[verifier::external_body]
pub broadcast proof fn axiom_de_src_yaml<'de>(d: &serde_yaml::Deserializer<'de>)
    ensures #[trigger] de_src::<serde_yaml::Deserializer<'de>>(d) == serde_yaml::yd_src(d),
{ }
// ghost log of an output: the byte strings of the documents offered so far
pub uninterp spec fn out_log<O: ?Sized>(o: &O) -> Seq<Seq<u8>>;
trait Output {
    fn transcode_from<'de, D, E>(&mut self, de: D) -> (r: Result<()>)
    where
        D: de::Deserializer<'de, Error = E>,
        E: de::Error + Send + Sync + 'static,
        ensures out_log(final(self)) == out_log(old(self)).push(de_src(&de)),
    ;
    fn transcode_value<S>(&mut self, value: S) -> Result<()>
    where
        S: ser::Serialize;
    fn flush(&mut self) -> std::io::Result<()>;
}
#[verifier::external_trait_specification]
pub trait ExBufRead: std::io::Read {
    type ExternalTraitSpecificationFor: std::io::BufRead;
    fn fill_buf(&mut self) -> (r: std::io::Result<&[u8]>);
    fn consume(&mut self, amt: usize);
}

#[verifier::external_type_specification] #[verifier::external_body] pub struct ExUtf8Error(std::str::Utf8Error);
#[verifier::external_type_specification] #[verifier::external_body] #[verifier::reject_recursive_types(R)] pub struct ExBufReader<R: ?Sized>(std::io::BufReader<R>);
pub assume_specification<R: std::io::Read> [std::io::BufReader::<R>::new] (r: R) -> std::io::BufReader<R>;
pub assume_specification [std::str::from_utf8] (v: &[u8]) -> (r: std::result::Result<&str, std::str::Utf8Error>)
    ensures r matches Ok(s) ==> s.spec_bytes() == v@;
// `&b` with b: Cow<[u8]> coerced to &[u8]: the same borrowed slice every time (ASSUMED: Cow::deref is a pure function of the Cow)
pub uninterp spec fn cow_ref<'a, 'b, B: ?Sized + ToOwned>(c: &'b std::borrow::Cow<'a, B>) -> &'b B;
pub assume_specification<'a, 'b, B: ?Sized + ToOwned> [<std::borrow::Cow<'a, B> as std::ops::Deref>::deref] (c: &'b std::borrow::Cow<'a, B>) -> (r: &'b B)
    ensures r == cow_ref(c);
// str trimming (uninterpreted: nothing says a trimmed text is the document, or may be handed to serde_yaml)
pub uninterp spec fn str_trimmed<'a>(s: &'a str, how: int) -> &'a str;
pub assume_specification<'a> [str::trim_end] (s: &'a str) -> (r: &'a str) ensures r == str_trimmed(s, 1);
pub assume_specification<'a> [str::trim_start] (s: &'a str) -> (r: &'a str) ensures r == str_trimmed(s, 2);
pub assume_specification<'a> [str::trim] (s: &'a str) -> (r: &'a str) ensures r == str_trimmed(s, 3);
// a text that may be handed to serde_yaml as it is: the UTF-8 encoding of a YAML stream (F2), or a chunk cut by the chunker
pub uninterp spec fn yaml_text_ok(s: &str) -> bool;

// the extracted items live in the module they come from, so that `pub(super)` keeps its meaning
pub mod yaml { use super::*; pub mod chunker { use super::*;
'''

# ---------------------------------------------------------------------------------------------------------
# libyaml stand-ins (assumed contract) -- placed after the extracted yaml_event_type_t and ChunkReader
# ---------------------------------------------------------------------------------------------------------
PARSER_MODEL = r'''
use yaml_event_type_t::*;

// abstract record of one libyaml event
pub struct EvM { pub ty: yaml_event_type_t, pub start: u64, pub end: u64 }

// ---- stand-ins for src/yaml/chunker/parser.rs (NOT extracted; every contract below is ASSUMED) ----
#[verifier::external_body]
#[verifier::accept_recursive_types(R)]
pub struct Parser<R> { _r: std::marker::PhantomData<R> }
#[verifier::external_body]
pub struct Event { _e: () }
#[verifier::external_body]
pub struct ParserError { _e: () }

pub uninterp spec fn ev_model(e: &Event) -> EvM;
// ghost views of the parser: the reader it owns, the events delivered so far, every byte libyaml has pulled
// through its read handler so far, and the end mark of the latest event
pub uninterp spec fn p_reader<R: Read>(p: &Parser<ChunkReader<R>>) -> ChunkReader<R>;
pub uninterp spec fn p_hist<R: Read>(p: &Parser<ChunkReader<R>>) -> Seq<EvM>;
pub uninterp spec fn p_stream<R: Read>(p: &Parser<ChunkReader<R>>) -> Seq<u8>;
pub uninterp spec fn p_last_mark<R: Read>(p: &Parser<ChunkReader<R>>) -> u64;

impl Event {
    #[verifier::external_body]
    fn event_type(&self) -> (r: yaml_event_type_t) ensures r == ev_model(self).ty { unimplemented!() }
    #[verifier::external_body]
    fn start_offset(&self) -> (r: u64) ensures r == ev_model(self).start { unimplemented!() }
    #[verifier::external_body]
    fn end_offset(&self) -> (r: u64) ensures r == ev_model(self).end { unimplemented!() }
}

impl<R: Read> Parser<ChunkReader<R>> {
    #[verifier::external_body]
    fn new(reader: ChunkReader<R>) -> (p: Self)
        ensures p_reader(&p) == reader, p_hist(&p).len() == 0, p_stream(&p) =~= reader.captured@, p_last_mark(&p) == 0,
    { unimplemented!() }

    // the reader can be reached while the parser is idle; nothing else about the parser changes
    #[verifier::external_body]
    fn reader_mut(&mut self) -> (r: &mut ChunkReader<R>)
        ensures *r == p_reader(old(self)), p_reader(final(self)) == *final(r),
            p_hist(final(self)) == p_hist(old(self)), p_stream(final(self)) == p_stream(old(self)),
            p_last_mark(final(self)) == p_last_mark(old(self)),
    { unimplemented!() }

    // ASSUMED contract of libyaml's yaml_parser_parse behind Parser::next_event:
    #[verifier::external_body]
    fn next_event(&mut self) -> (r: Result<Event, io::Error>)
        ensures
            // (a) libyaml pulls bytes only through the read handler = ChunkReader::read: the capture grows by exactly
            //     the bytes that were delivered, its start offset is untouched
            p_reader(final(self)).captured_start_offset == p_reader(old(self)).captured_start_offset,
            p_stream(old(self)).is_prefix_of(p_stream(final(self))),
            p_reader(final(self)).captured@ == p_reader(old(self)).captured@
                + p_stream(final(self)).subrange(p_stream(old(self)).len() as int, p_stream(final(self)).len() as int),
            // (b) one event is appended; marks are monotone and within the bytes delivered (assumption 7)
            r matches Ok(e) ==> {
                &&& p_hist(final(self)) == p_hist(old(self)).push(ev_model(&e))
                &&& p_last_mark(old(self)) <= ev_model(&e).start <= ev_model(&e).end <= p_stream(final(self)).len()
                &&& p_last_mark(final(self)) == ev_model(&e).end
                // (c) YAML event grammar: DOCUMENT-END is followed by DOCUMENT-START or STREAM-END
                &&& (p_hist(old(self)).len() > 0 && p_hist(old(self)).last().ty == YAML_DOCUMENT_END_EVENT
                        ==> ev_model(&e).ty == YAML_DOCUMENT_START_EVENT || ev_model(&e).ty == YAML_STREAM_END_EVENT)
                // (d) libyaml has validated the stream as UTF-8 and marks fall on character boundaries
                &&& (ev_model(&e).ty == YAML_DOCUMENT_END_EVENT ==>
                        utf8_ok(p_stream(final(self)).subrange(cut_point(p_hist(old(self))) as int, ev_model(&e).end as int)))
            },
            r is Err ==> p_hist(final(self)) == p_hist(old(self)) && p_last_mark(final(self)) == p_last_mark(old(self)),
    { unimplemented!() }
}

// ---- what the event history means for the chunker (pure functions of the history) ----
// where the capture buffer starts after the events of h: the latest DOCUMENT-START start / DOCUMENT-END end
pub open spec fn cut_point(h: Seq<EvM>) -> u64
    decreases h.len()
{
    if h.len() == 0 { 0 } else {
        let e = h.last();
        if e.ty == YAML_DOCUMENT_START_EVENT { e.start }
        else if e.ty == YAML_DOCUMENT_END_EVENT { e.end }
        else { cut_point(h.drop_last()) }
    }
}
// the documents completed by h, in order: (first byte, one past the last byte)
pub open spec fn docs_of(h: Seq<EvM>) -> Seq<(u64, u64)>
    decreases h.len()
{
    if h.len() == 0 { Seq::empty() } else {
        let e = h.last();
        let d = docs_of(h.drop_last());
        if e.ty == YAML_DOCUMENT_END_EVENT { d.push((cut_point(h.drop_last()), e.end)) } else { d }
    }
}
// 0 = no content event yet, 1 = first content event was a scalar, 2 = a sequence / mapping
pub open spec fn kind_of(h: Seq<EvM>) -> int
    decreases h.len()
{
    if h.len() == 0 { 0 } else {
        let e = h.last();
        let k = kind_of(h.drop_last());
        if e.ty == YAML_DOCUMENT_START_EVENT || e.ty == YAML_DOCUMENT_END_EVENT { 0 }
        else if e.ty == YAML_SCALAR_EVENT { if k == 0 { 1 } else { k } }
        else if e.ty == YAML_SEQUENCE_START_EVENT || e.ty == YAML_MAPPING_START_EVENT { if k == 0 { 2 } else { k } }
        else { k }
    }
}
// kinds of the completed documents, in order
pub open spec fn kinds_of(h: Seq<EvM>) -> Seq<int>
    decreases h.len()
{
    if h.len() == 0 { Seq::empty() } else {
        let e = h.last();
        let d = kinds_of(h.drop_last());
        if e.ty == YAML_DOCUMENT_END_EVENT { d.push(kind_of(h.drop_last())) } else { d }
    }
}
// a completed document is waiting to be emitted
pub open spec fn pending(h: Seq<EvM>) -> bool
    decreases h.len()
{
    if h.len() == 0 { false } else {
        let e = h.last();
        if e.ty == YAML_DOCUMENT_END_EVENT { true }
        else if e.ty == YAML_DOCUMENT_START_EVENT || e.ty == YAML_STREAM_END_EVENT { false }
        else { pending(h.drop_last()) }
    }
}
spec fn kind_code(k: Option<DocumentKind>) -> int {
    match k { None => 0, Some(DocumentKind::Scalar) => 1, Some(DocumentKind::Collection) => 2 }
}
// the capture keeps describing stream[cs..] when the stream grows and the delivered bytes are appended to it;
// earlier substrings of the stream are unaffected
pub proof fn lemma_stream_grows(s0: Seq<u8>, s1: Seq<u8>, cap0: Seq<u8>, cs: int)
    requires s0.is_prefix_of(s1), 0 <= cs <= s0.len(), cap0 =~= s0.subrange(cs, s0.len() as int),
    ensures (cap0 + s1.subrange(s0.len() as int, s1.len() as int)) =~= s1.subrange(cs, s1.len() as int),
        forall|a: int, b: int| 0 <= a <= b <= s0.len() ==> #[trigger] s0.subrange(a, b) =~= s1.subrange(a, b),
{
    assert(s0 =~= s1.subrange(0, s0.len() as int));
    assert forall|i: int| 0 <= i < s0.len() implies s0[i] == s1[i] by { assert(s1.subrange(0, s0.len() as int)[i] == s1[i]); }
}
pub proof fn lemma_docs_len(h: Seq<EvM>)
    ensures docs_of(h).len() == kinds_of(h).len(), pending(h) ==> docs_of(h).len() > 0,
    decreases h.len()
{
    if h.len() > 0 { lemma_docs_len(h.drop_last()); }
}
'''

CHUNKER_VIEW = r'''
    // number of documents handed to the caller so far
    pub closed spec fn emitted(&self) -> int {
        docs_of(p_hist(&self.parser)).len() - (if pending(p_hist(&self.parser)) { 1int } else { 0int })
    }
    pub closed spec fn inv(&self) -> bool {
        let p = &self.parser;
        let rd = p_reader(p);
        let h = p_hist(p);
        let s = p_stream(p);
        &&& rd.captured_start_offset <= s.len()
        &&& rd.captured@ =~= s.subrange(rd.captured_start_offset as int, s.len() as int)
        &&& rd.captured_start_offset == cut_point(h)
        &&& cut_point(h) <= p_last_mark(p) <= s.len()
        &&& (self.last_document is Some <==> pending(h))
        &&& (pending(h) ==> h.len() > 0 && h.last().ty == YAML_DOCUMENT_END_EVENT)
        &&& (self.last_document matches Some(d) ==> {
                let (a, b) = docs_of(h).last();
                &&& a <= b <= s.len()
                &&& str_bytes(d.content) =~= s.subrange(a as int, b as int)
                &&& kind_code(d.kind) == kinds_of(h).last()
            })
        &&& kind_code(self.current_document_kind) == kind_of(h)
        &&& (self.stream_ended ==> h.len() > 0 && h.last().ty == YAML_STREAM_END_EVENT)
    }
'''

# C03 / C05 / C09-C10: from any state satisfying the invariant, one call of next():
#   Some(Ok(d)): d is EXACTLY the next not-yet-emitted document of the event history -- its bytes are
#                stream[start..end] of that document (no byte of a gap, none of a neighbour), its kind the kind of its
#                first content event; the emitted count goes up by one (nothing skipped, nothing emitted twice);
#   None:        the stream has ended and every completed document has been emitted;
#   Some(Err):   nothing emitted, nothing lost.
# The buffer holds exactly stream[cut_point..] (inv): memory is the bytes since the current document start (C05).
NEXT_SPEC = '''requires old(self).inv(),
    ensures final(self).inv(),
        p_hist(&old(self).parser).is_prefix_of(p_hist(&final(self).parser)),
        p_stream(&old(self).parser).is_prefix_of(p_stream(&final(self).parser)),
        r matches Some(Ok(d)) ==> {
            let h = p_hist(&final(self).parser);
            let k = old(self).emitted();
            &&& final(self).emitted() == k + 1
            &&& 0 <= k < docs_of(h).len()
            &&& docs_of(h)[k].0 <= docs_of(h)[k].1 <= p_stream(&final(self).parser).len()
            &&& str_bytes(d.content) == p_stream(&final(self).parser).subrange(docs_of(h)[k].0 as int, docs_of(h)[k].1 as int)
            &&& kind_code(d.kind) == kinds_of(h)[k]
        },
        r is None ==> final(self).stream_ended && final(self).emitted() == old(self).emitted()
            && final(self).emitted() == docs_of(p_hist(&final(self).parser)).len(),
        r matches Some(Err(e)) ==> final(self).emitted() == old(self).emitted() && err_kind(&e) == std::io::ErrorKind::InvalidData,'''

NEXT_LOOP_INV = '''invariant self.inv(), !self.stream_ended,
        p_hist(&old(self).parser).is_prefix_of(p_hist(&self.parser)),
        p_stream(&old(self).parser).is_prefix_of(p_stream(&self.parser)),
        self.emitted() == old(self).emitted(),'''

SNAPSHOT = '''let ghost h0 = p_hist(&self.parser); let ghost s0 = p_stream(&self.parser); let ghost rd0 = p_reader(&self.parser);'''
AFTER_EVENT = '''proof {
    let h1 = p_hist(&self.parser); let s1 = p_stream(&self.parser);
    assert(h1.drop_last() =~= h0);
    assert(h1.last() == ev_model(&event));
    lemma_docs_len(h0); lemma_docs_len(h1);
    lemma_stream_grows(s0, s1, rd0.captured@, rd0.captured_start_offset as int);
}'''
AFTER_TRIM = '''proof {
    let s1 = p_stream(&self.parser);
    assert(p_reader(&self.parser).captured@ =~= s1.subrange(offset as int, s1.len() as int));
}'''
AFTER_TAKE = '''proof {
    let s1 = p_stream(&self.parser);
    assert(chunk@ =~= s1.subrange(cut_point(h0) as int, ev_model(&event).end as int));
    assert(p_reader(&self.parser).captured@ =~= s1.subrange(ev_model(&event).end as int, s1.len() as int));
}'''
CHUNKER_NEW_SPEC = 'ensures c.inv(), c.emitted() == 0,'

CR_TRIM_SPEC = '''requires old(self).captured_start_offset <= offset <= old(self).captured_start_offset + old(self).captured@.len(),
    ensures final(self).captured_start_offset == offset,
        final(self).captured@ == old(self).captured@.subrange(offset - old(self).captured_start_offset, old(self).captured@.len() as int),
        final(self).reader == old(self).reader,'''
CR_TAKE_SPEC = '''requires old(self).captured_start_offset <= offset <= old(self).captured_start_offset + old(self).captured@.len(),
    ensures final(self).captured_start_offset == offset,
        r@ == old(self).captured@.subrange(0, offset - old(self).captured_start_offset),
        final(self).captured@ == old(self).captured@.subrange(offset - old(self).captured_start_offset, old(self).captured@.len() as int),
        final(self).reader == old(self).reader,'''
# one inner read; what the inner reader delivered is appended to the capture and handed on unchanged (C02/C05/C12)
CR_READ_SPEC = '''ensures final(buf)@.len() == old(buf)@.len(),
        final(self).captured_start_offset == old(self).captured_start_offset,
        r matches Ok(n) ==> n <= old(buf)@.len() && final(self).captured@ == old(self).captured@ + final(buf)@.subrange(0, n as int),
        r is Err ==> final(self).captured@ == old(self).captured@,'''
CR_NEW_SPEC = 'ensures r.reader == reader, r.captured@.len() == 0, r.captured_start_offset == 0,'

INPUT_HEAD = r'''
pub mod input {
    use vstd::prelude::*;
    use std::borrow::Cow;
    use std::io::Read;
    #[verifier::external_body]
    pub struct Handle<'i> { _h: std::marker::PhantomData<&'i [u8]> }
    // the capture reader of src/input.rs (contracts proved in U-CAP-V); here only a source of bytes
    #[verifier::external_body]
    #[verifier::reject_recursive_types(R)]
    pub struct CaptureReader<R> { _r: std::marker::PhantomData<R> }
    #[verifier::external]
    impl<R: Read> Read for CaptureReader<R> { fn read(&mut self, buf: &mut [u8]) -> std::io::Result<usize> { unimplemented!() } }
'''
REF_TAIL = r'''
    impl<'i, 'h> Ref<'i, 'h> where 'i: 'h {
        // stand-in for Ref::prefix (proved in U-CAP-V): a slice hands back itself; a reader's prefix is some bytes or its error
        #[verifier::external_body]
        pub fn prefix(&mut self, size_hint: usize) -> (r: std::io::Result<&[u8]>)
            // C09 / C07 (this unit's only caller is yaml::input_matches): the encoding look-ahead asks for as many bytes as
            // Encoding::detect inspects -- with fewer, UTF-32 from a reader is mistaken for UTF-16
            requires size_hint >= super::Encoding::DETECT_LEN,
            ensures *old(self) matches Ref::Slice(b) ==> (r matches Ok(p) && p@ == b@),
        { unimplemented!() }
    }
'''
INPUT_TAIL = r'''
    pub uninterp spec fn input_of<'i>(h: Handle<'i>) -> Input<'i>;
    impl<'i> vstd::std_specs::convert::FromSpecImpl<Handle<'i>> for Input<'i> {
        open spec fn obeys_from_spec() -> bool { true }
        open spec fn from_spec(h: Handle<'i>) -> Input<'i> { input_of(h) }
    }
    impl<'i> From<Handle<'i>> for Input<'i> {
        #[verifier::external_body]
        fn from(handle: Handle<'i>) -> (r: Self) ensures r == input_of(handle), { unimplemented!() }
    }
}
use input::{Input, Ref};
'''
ENCODING_STANDIN = r'''
// what the YAML 1.2.2 section 5.2 table says for a prefix (Encoding::detect == this table: Kani unit U-ENC-D, complete)
pub uninterp spec fn spec_detect(prefix: Seq<u8>) -> Encoding;
impl Encoding {
    #[verifier::external_body]
    pub fn detect(prefix: &[u8]) -> (r: Encoding) ensures r == spec_detect(prefix@), { unimplemented!() }
'''
ENCODING_STANDIN_2 = r'''
}
// the YAML 1.2.2 section 5.2 table distinguishes the encodings by up to FOUR leading bytes
pub proof fn lemma_detect_len_covers_the_table() ensures Encoding::DETECT_LEN >= 4 { }
// F2 (C07 / C02): a slice may go to serde_yaml directly only if it is the UTF-8 encoding of the stream
#[verifier::external_body]
pub broadcast proof fn axiom_utf8_stream_text_ok(s: &str)
    requires spec_detect(s.spec_bytes()) is Utf8,
    ensures #[trigger] yaml_text_ok(s),
{ }
'''
YAML_RS_OPEN = r'''
pub mod yaml_rs {
    use super::*;
    // stand-in for yaml::encoding::Encoder::from_reader (U-ENC-V / U-ENC-R cover the re-encoder): some reader, or an error
    #[verifier::external_body]
    #[verifier::reject_recursive_types(R)]
    pub struct EncodedReader<R> { _r: std::marker::PhantomData<R> }
    #[verifier::external]
    impl<R: BufRead> Read for EncodedReader<R> { fn read(&mut self, buf: &mut [u8]) -> io::Result<usize> { unimplemented!() } }
    #[verifier::external_body]
    #[verifier::reject_recursive_types(R)]
    pub struct Encoder<R> { _r: std::marker::PhantomData<R> }
    #[verifier::external]
    impl<R: BufRead> Read for Encoder<R> { fn read(&mut self, buf: &mut [u8]) -> io::Result<usize> { unimplemented!() } }
    impl<R: BufRead> Encoder<R> {
        #[verifier::external_body]
        pub fn from_reader(reader: R) -> io::Result<EncodedReader<R>> { unimplemented!() }
        // stand-in for Encoder::new (mapping Encoding -> decoder: Kani encoder_new_maps_every_encoding)
        #[verifier::external_body]
        pub fn new(reader: R, from: Encoding) -> Self { unimplemented!() }
    }
    // C10 (YAML verdict): what input_matches must answer for what the chunker said about the first document
    pub open spec fn im_mapping(c: Option<io::Result<Document>>, r: io::Result<bool>) -> bool {
        match c {
            Some(Ok(doc)) => r matches Ok(b) && b == (doc.kind_v() == 2),
            Some(Err(e)) => if err_kind(&e) == io::ErrorKind::InvalidData { r matches Ok(b) && !b } else { r matches Err(e2) && e2 == e },
            None => r matches Ok(b) && !b,
        }
    }
    // the bytes of the k-th document of the chunker's event history, cut out of the stream it has read
    spec fn doc_bytes<R: Read>(c: &Chunker<R>, k: int) -> Seq<u8> {
        let d = docs_of(p_hist(&c.parser))[k];
        p_stream(&c.parser).subrange(d.0 as int, d.1 as int)
    }
'''
# C03 (YAML reader path): every document the chunker emits is offered to the output, once, in order, with exactly its
# bytes; when the chunker is exhausted every document of the stream has been offered
TR_FOR = (r'let ghost mut offered: Seq<Seq<u8>> = Seq::empty(); '
          r'let mut verus_iter = \2; loop invariant verus_iter.inv(), out_log(&output) == log0 + offered, offered.len() == verus_iter.emitted(), ensures all_offered, '
          r'{ broadcast use axiom_de_src_yaml; let ghost em0 = verus_iter.emitted(); '
          r'let \1 = match verus_iter.next() { None => { proof { all_offered = true; assert(verus_iter.emitted() == docs_of(p_hist(&verus_iter.parser)).len()); } break }, Some(verus_item) => verus_item };')
TR_AFTER_OFFER = '''proof {
    // what was just offered is exactly the bytes of document number em0 of the stream
    offered = offered.push(str_bytes(doc.content));
    assert(offered.last() == doc_bytes(&verus_iter, em0));
    assert(log0 + offered =~= (log0 + offered.drop_last()).push(offered.last()));
}'''
TR_END = '''proof { assert(all_offered); }'''
TC_FOR = (r'let ghost n0 = out_log(&output).len(); let ghost mut all_offered = false; let mut verus_iter = \2; '
          r'loop invariant_except_break !serde_yaml::yd_done(&verus_iter), invariant out_log(&output).len() == n0 + serde_yaml::yd_yielded(&verus_iter), ensures all_offered, '
          r'{ let \1 = match verus_iter.next() { None => { proof { all_offered = true; } break }, Some(verus_item) => verus_item };')
# C03 / C04 (slice path): Ok(()) only after the document iterator reported the end, with one offer per document it yielded
TC_END = '''proof { assert(all_offered); }'''
IM_TAIL = (r'let ghost g_chunk = chunk; let verus_r = match chunk {\1}; proof { assert(im_mapping(g_chunk, verus_r)); } verus_r }')
SRC = 'repo:src/yaml/chunker.rs'
CRI = r'\bimpl\s*<R>\s+ChunkReader\s*<R>'
CRR = r'\bimpl\s*<R>\s+Read\s+for\s+ChunkReader\s*<R>'
CKI = r'\bimpl\s*<R>\s+Chunker\s*<R>'
CKN = r'\bimpl\s*<R>\s+Iterator\s+for\s+Chunker\s*<R>'
DOCI = r'\bimpl\s+Document\b'
RANGE = 'broadcast use axiom_range_to_lo, axiom_range_to_hi;'

ITEMS = [
    dict(src='crate:unsafe-libyaml:src/yaml.rs', kind='enum', name='yaml_event_type_t', keep_attrs=False),
    dict(src=SRC, kind='struct', name='ChunkReader'),
    dict(raw='impl<R> ChunkReader<R>\nwhere\n\tR: Read,\n{'),
    dict(src=SRC, kind='fn', name='new', within_impl=CRI, contract=dict(ret='r', spec=CR_NEW_SPEC)),
    dict(src=SRC, kind='fn', name='trim_to_offset', within_impl=CRI, contract=dict(spec=CR_TRIM_SPEC, prologue=RANGE)),
    dict(src=SRC, kind='fn', name='take_to_offset', within_impl=CRI, contract=dict(ret='r', spec=CR_TAKE_SPEC)),
    dict(src=SRC, kind='fn', name='read', within_impl=CRR, contract=dict(ret='r', spec=CR_READ_SPEC)),
    dict(raw='}'),
    dict(src=SRC, kind='struct', name='Document'),
    dict(src=SRC, kind='enum', name='DocumentKind', drop_vis=True),
    dict(raw=PARSER_MODEL),
    dict(src=SRC, kind='struct', name='Chunker'),
    dict(raw='impl<R> Chunker<R>\nwhere\n\tR: Read,\n{' + CHUNKER_VIEW),
    dict(src=SRC, kind='fn', name='new', within_impl=CKI, contract=dict(ret='c', spec=CHUNKER_NEW_SPEC)),
    dict(src=SRC, kind='fn', name='next', within_impl=CKN,
         contract=dict(ret='r', spec=NEXT_SPEC, attrs=['#[verifier::exec_allows_no_decreases_clause]', '#[verifier::rlimit(60)]'],  # termination NOT proved: it rests on libyaml reaching a document boundary
                       rewrites=[dict(find=r'\.map\(Ok\)', to='.map(|v: Document| -> (r: io::Result<Document>) ensures r == Ok::<Document, io::Error>(v) { Ok(v) })'), dict(find=r'\bSelf::Item\b', to_assoc='Item'),
                                 dict(find=r'\bio::Error::new\b', to='io_error_new')],
                       prologue='proof { lemma_docs_len(p_hist(&self.parser)); }',
                       inserts=[dict(before=r'let\s+event\s*=\s*match\s+self\s*\.\s*parser\s*\.\s*next_event', text=SNAPSHOT),
                                dict(before=r'match\s+event\s*\.\s*event_type\s*\(\s*\)', text=AFTER_EVENT),
                                dict(after=r'\.\s*trim_to_offset\s*\([^;]*;', text=AFTER_TRIM),
                                dict(after=r'\.\s*take_to_offset\s*\([^;]*;', text=AFTER_TAKE)],
                       loops=[dict(ordinal=0, kind='loop', clauses=NEXT_LOOP_INV)])),
    dict(raw='}'),
    dict(raw='impl Document {\n    pub closed spec fn kind_v(&self) -> int { kind_code(self.kind) }\n    pub closed spec fn content_v(&self) -> Seq<u8> { str_bytes(self.content) }'),
    dict(src=SRC, kind='fn', name='is_collection', within_impl=DOCI,
         contract=dict(ret='r', spec='ensures r == (self.kind_v() == 2),')),
    dict(src=SRC, kind='fn', name='content', within_impl=DOCI, mode='external_body',
         contract=dict(ret='r', spec='ensures r.spec_bytes() == self.content_v(), yaml_text_ok(r),')),   # `&self.content` (String -> &str deref): assumed
    dict(raw='}'),
    # ---- src/yaml.rs: the reader loop that feeds the chunks to the output (in a child module so that it sees Chunker) ----
    dict(raw=INPUT_HEAD),
    dict(src='repo:src/input.rs', kind='enum', name='Input', drop_vis=True, wrap=('    pub', '')),
    dict(src='repo:src/input.rs', kind='enum', name='Ref', drop_vis=True, wrap=('    pub', '')),
    dict(raw=REF_TAIL),
    dict(raw=INPUT_TAIL),
    dict(src='repo:src/yaml/encoding.rs', kind='enum', name='Encoding', drop_vis=True, wrap=('pub', '')),
    dict(raw=ENCODING_STANDIN),
    # the look-ahead length, verbatim from `impl Encoding` (visibility dropped)
    dict(src='repo:src/yaml/encoding.rs', kind='const', name='DETECT_LEN', within_impl=r'\bimpl\s+Encoding\b', drop_vis=True, wrap=('pub', '')),
    dict(raw=ENCODING_STANDIN_2),
    dict(raw=YAML_RS_OPEN),
    dict(src='repo:src/yaml.rs', kind='fn', name='transcode_reader',
         contract=dict(ret='r', spec='ensures true,', attrs=['#[verifier::exec_allows_no_decreases_clause]'],   # termination: the stream ends (libyaml); not proved
                       prologue='let ghost log0 = out_log(&output); let ghost mut all_offered = false;',
                       rewrites=[dict(find=r'for\s+(\w+)\s+in\s+([^{]+?)\s*\{', to=TR_FOR, expand=True)],
                       inserts=[dict(before=r'Ok\(\(\)\)\s*\}\s*$', text=TR_END)],
                       inserts_all=[dict(after=r'output\s*\.\s*transcode_from\s*\([^;]*;', text=TR_AFTER_OFFER)])),
    # yaml::input_matches: the verdict is a function of the chunker's FIRST answer only (T13: the tail match is given a name)
    dict(src='repo:src/yaml.rs', kind='fn', name='input_matches',
         contract=dict(ret='r', spec='ensures true,',
                       rewrites=[dict(find=r'(?s)match\s+chunk\s*\{(.*)\}\s*\}\s*$', to=IM_TAIL, expand=True, required=True)])),
    # yaml::transcode: the slice fast path (F2 guard as the precondition of from_str; every document of the slice offered once)
    dict(src='repo:src/yaml.rs', kind='fn', name='transcode',
         contract=dict(ret='r', spec='ensures true,', attrs=['#[verifier::exec_allows_no_decreases_clause]'],
                       prologue='broadcast use axiom_utf8_stream_text_ok;',
                       rewrites=[dict(find=r'for\s+(\w+)\s+in\s+([^{]+?)\s*\{', to=TC_FOR, expand=True)],
                       inserts=[dict(before=r'Ok\s*\(\s*\(\s*\)\s*\)', text=TC_END)])),
    dict(raw='}'),
]

CONSTS = []

LEMMAS = r'''
// C03 as a statement about histories: documents are cut at increasing, non-overlapping positions
pub open spec fn marks_monotone(h: Seq<EvM>) -> bool {
    &&& forall|i: int| 0 <= i < h.len() ==> (#[trigger] h[i]).start <= h[i].end
    &&& forall|i: int, j: int| 0 <= i < j < h.len() ==> (#[trigger] h[i]).end <= (#[trigger] h[j]).start
}
pub proof fn lemma_cut_point_bounded(h: Seq<EvM>)
    requires marks_monotone(h),
    ensures h.len() == 0 ==> cut_point(h) == 0,
        h.len() > 0 ==> cut_point(h) <= h.last().end,
    decreases h.len()
{
    if h.len() > 0 {
        let p = h.drop_last();
        assert(marks_monotone(p)) by {
            assert forall|i: int| 0 <= i < p.len() implies (#[trigger] p[i]).start <= p[i].end by { assert(p[i] == h[i]); }
            assert forall|i: int, j: int| 0 <= i < j < p.len() implies (#[trigger] p[i]).end <= (#[trigger] p[j]).start by { assert(p[i] == h[i]); assert(p[j] == h[j]); }
        }
        lemma_cut_point_bounded(p);
        if p.len() > 0 { assert(p.last() == h[h.len() - 2]); assert(h[h.len() - 2].end <= h[h.len() - 1].start); }
    }
}
// the documents of a monotone history are well-formed intervals, in increasing order, pairwise disjoint
pub proof fn theorem_documents_are_ordered_disjoint_intervals(h: Seq<EvM>)
    requires marks_monotone(h),
    ensures
        forall|k: int| 0 <= k < docs_of(h).len() ==> (#[trigger] docs_of(h)[k]).0 <= docs_of(h)[k].1,
        forall|k: int, l: int| 0 <= k < l < docs_of(h).len() ==> (#[trigger] docs_of(h)[k]).1 <= (#[trigger] docs_of(h)[l]).0,
        docs_of(h).len() > 0 ==> docs_of(h).last().1 <= h.last().end,
    decreases h.len()
{
    if h.len() > 0 {
        let p = h.drop_last();
        assert(marks_monotone(p)) by {
            assert forall|i: int| 0 <= i < p.len() implies (#[trigger] p[i]).start <= p[i].end by { assert(p[i] == h[i]); }
            assert forall|i: int, j: int| 0 <= i < j < p.len() implies (#[trigger] p[i]).end <= (#[trigger] p[j]).start by { assert(p[i] == h[i]); assert(p[j] == h[j]); }
        }
        theorem_documents_are_ordered_disjoint_intervals(p);
        lemma_cut_point_bounded(p);
        let e = h.last();
        if p.len() > 0 { assert(p.last() == h[h.len() - 2]); assert(h[h.len() - 2].end <= e.start); }
        if e.ty == YAML_DOCUMENT_END_EVENT {
            let d = docs_of(p);
            let nd = docs_of(h);
            assert(nd == d.push((cut_point(p), e.end)));
            // the new document starts at the cut point, which is at or after the end of every earlier document
            lemma_docs_end_le_cut(p);
        }
    }
}
pub proof fn lemma_docs_end_le_cut(h: Seq<EvM>)
    requires marks_monotone(h),
    ensures forall|k: int| 0 <= k < docs_of(h).len() ==> (#[trigger] docs_of(h)[k]).1 <= cut_point(h),
    decreases h.len()
{
    if h.len() > 0 {
        let p = h.drop_last();
        assert(marks_monotone(p)) by {
            assert forall|i: int| 0 <= i < p.len() implies (#[trigger] p[i]).start <= p[i].end by { assert(p[i] == h[i]); }
            assert forall|i: int, j: int| 0 <= i < j < p.len() implies (#[trigger] p[i]).end <= (#[trigger] p[j]).start by { assert(p[i] == h[i]); assert(p[j] == h[j]); }
        }
        lemma_docs_end_le_cut(p);
        lemma_cut_point_bounded(p);
        let e = h.last();
        assert(e.start <= e.end);
        if p.len() > 0 { assert(p.last() == h[h.len() - 2]); assert(h[h.len() - 2].end <= e.start); assert(cut_point(p) <= e.start); }
        else { assert(cut_point(p) == 0); }
        assert forall|k: int| 0 <= k < docs_of(h).len() implies (#[trigger] docs_of(h)[k]).1 <= cut_point(h) by {
            if e.ty == YAML_DOCUMENT_END_EVENT {
                assert(docs_of(h) == docs_of(p).push((cut_point(p), e.end)));
                if k < docs_of(p).len() { assert(docs_of(h)[k] == docs_of(p)[k]); }
            } else {
                assert(docs_of(h) == docs_of(p));
            }
        }
    }
}
'''

FOOTER = '''
} } // mod yaml::chunker
} // verus!
fn main() {}
'''
