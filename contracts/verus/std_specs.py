"""Assumed specifications of the std items the extracted xt functions call (Verus `assume_specification` /
`external_trait_specification`).  Every one is an ASSUMPTION about std, written from the std documentation;
the mechanical trusted-base scan lists each of them in the evidence file.  The same std functions are
executed for real (within size bounds) by the Kani harnesses of the same units, which is the cross-check.

Blocks are included by the units that need them, so an evidence file only lists what its unit relies on.
"""

CRATE_ATTRS = '#![feature(allocator_api, sized_hierarchy)]\n#![allow(unused)]\n'

# io::Error (opaque), Read / Write / BufRead / AsRef trait contracts
IO_TRAITS = r'''
#[verifier::external_type_specification]
#[verifier::external_body]
pub struct ExIoError(std::io::Error);

#[verifier::external_trait_specification]
pub trait ExAsRef<T: std::marker::PointeeSized>: std::marker::PointeeSized {
    type ExternalTraitSpecificationFor: AsRef<T>;
    fn as_ref(&self) -> &T;
}

// ghost byte budget of a reader: Some(l) for std::io::Take (its remaining limit), unconstrained for every other reader
pub uninterp spec fn read_budget<R: ?Sized>(r: &R) -> Option<nat>;

// The documented contract of std::io::Read for an HONEST reader: Ok(n) => n <= buf.len(); the buffer keeps its length.
// (Readers that lie about n are outside this contract; the Kani units drive the same code with lying readers.)
#[verifier::external_trait_specification]
pub trait ExRead {
    type ExternalTraitSpecificationFor: std::io::Read;
    fn read(&mut self, buf: &mut [u8]) -> (r: std::io::Result<usize>)
        ensures
            final(buf)@.len() == old(buf)@.len(),
            r matches Ok(n) ==> n <= old(buf)@.len(),
    ;
    fn read_exact(&mut self, buf: &mut [u8]) -> (r: std::io::Result<()>)
        ensures final(buf)@.len() == old(buf)@.len(),
    ;
    // appends what the reader delivers; keeps what was there; never more than a Take's remaining limit
    fn read_to_end(&mut self, buf: &mut Vec<u8>) -> (r: std::io::Result<usize>)
        ensures old(buf)@.is_prefix_of(final(buf)@),
            r matches Ok(n) ==> final(buf)@.len() == old(buf)@.len() + n,
            read_budget(old(self)) matches Some(l) ==> final(buf)@.len() - old(buf)@.len() <= l
                && (r matches Ok(n) ==> read_budget(final(self)) == Some((l - n) as nat)),
    ;
    fn by_ref(&mut self) -> (r: &mut Self) where Self: Sized
        ensures *r == *old(self), *final(self) == *final(r),
    ;
    fn take(self, limit: u64) -> (r: std::io::Take<Self>) where Self: Sized
        ensures read_budget(&r) == Some(limit as nat),
    ;
}
#[verifier::external_type_specification]
#[verifier::external_body]
#[verifier::reject_recursive_types(T)]
#[verifier::reject_recursive_types(U)]
pub struct ExChain<T, U>(std::io::Chain<T, U>);
// `a.chain(b)` (a provided method of Read whose own bound `R: Read` makes a trait-spec cycle in Verus) is redirected to this
// stand-in by an extraction rewrite; ASSUMED: the result is some reader
#[verifier::external_body]
pub fn io_chain<A: std::io::Read, B: std::io::Read>(a: A, b: B) -> std::io::Chain<A, B> { a.chain(b) }

#[verifier::external_trait_specification]
pub trait ExWrite {
    type ExternalTraitSpecificationFor: std::io::Write;
    fn write(&mut self, buf: &[u8]) -> (r: std::io::Result<usize>)
        ensures r matches Ok(n) ==> n <= buf@.len(),
    ;
    fn flush(&mut self) -> (r: std::io::Result<()>);
    fn write_all(&mut self, buf: &[u8]) -> (r: std::io::Result<()>);
}

#[verifier::external_type_specification]
#[verifier::external_body]
#[verifier::reject_recursive_types(T)]
pub struct ExTake<T>(std::io::Take<T>);
pub assume_specification<T> [std::io::Take::<T>::limit] (t: &std::io::Take<T>) -> (r: u64)
    ensures read_budget(t) == Some(r as nat);
'''

# std::cmp::min on usize
MIN = r'''
pub uninterp spec fn spec_min<T>(a: T, b: T) -> T;
#[verifier::allow(undeclared_external_trait)]
pub assume_specification<T> [std::cmp::min] (a: T, b: T) -> (r: T)
    where T: std::cmp::Ord + std::marker::Destruct,
    ensures r == spec_min(a, b);
#[verifier::external_body]
pub broadcast proof fn axiom_min_usize(a: usize, b: usize)
    ensures #[trigger] spec_min(a, b) == (if a <= b { a } else { b }) {}
'''

# std::io::Cursor<Vec<u8>>: view = (inner bytes, position)
CURSOR = r'''
#[verifier::external_type_specification]
#[verifier::external_body]
#[verifier::reject_recursive_types(T)]
pub struct ExCursor<T>(std::io::Cursor<T>);

pub uninterp spec fn cur_inner<T>(c: &std::io::Cursor<T>) -> T;
pub uninterp spec fn cur_pos<T>(c: &std::io::Cursor<T>) -> u64;
pub uninterp spec fn as_bytes<T>(t: T) -> Seq<u8>;
#[verifier::external_body]
pub broadcast proof fn axiom_vec_as_bytes<A: std::alloc::Allocator>(v: Vec<u8, A>)
    ensures #[trigger] as_bytes(v) == v@ {}
pub open spec fn cur_buf<T>(c: &std::io::Cursor<T>) -> Seq<u8> { as_bytes(cur_inner(c)) }

pub assume_specification<T> [std::io::Cursor::<T>::new] (t: T) -> (c: std::io::Cursor<T>)
    ensures cur_pos(&c) == 0, cur_inner(&c) == t;
pub assume_specification<T> [std::io::Cursor::<T>::position] (c: &std::io::Cursor<T>) -> (r: u64)
    ensures r == cur_pos(c);
pub assume_specification<T> [std::io::Cursor::<T>::get_ref] (c: &std::io::Cursor<T>) -> (r: &T)
    ensures *r == cur_inner(c);
pub assume_specification<T> [std::io::Cursor::<T>::get_mut] (c: &mut std::io::Cursor<T>) -> (r: &mut T)
    ensures *r == cur_inner(old(c)), cur_inner(final(c)) == *final(r), cur_pos(final(c)) == cur_pos(old(c));
pub assume_specification<T> [std::io::Cursor::<T>::set_position] (c: &mut std::io::Cursor<T>, p: u64)
    ensures cur_pos(final(c)) == p, cur_inner(final(c)) == cur_inner(old(c));
pub assume_specification<T> [std::io::Cursor::<T>::into_inner] (c: std::io::Cursor<T>) -> (r: T)
    ensures r == cur_inner(&c);
#[verifier::allow(undeclared_external_trait)]
pub assume_specification<T: AsRef<[u8]>> [<std::io::Cursor<T> as std::io::Read>::read] (c: &mut std::io::Cursor<T>, buf: &mut [u8]) -> (r: std::io::Result<usize>)
    ensures final(buf)@.len() == old(buf)@.len(), r matches Ok(n) ==> n <= old(buf)@.len(),
;
// read_exact on a cursor: enough bytes left => Ok, the buffer is exactly the next bytes and the position advances by
// its length; otherwise Err.  The contents never change.
#[verifier::allow(undeclared_external_trait)]
pub assume_specification<T: AsRef<[u8]>> [<std::io::Cursor<T> as std::io::Read>::read_exact] (c: &mut std::io::Cursor<T>, buf: &mut [u8]) -> (r: std::io::Result<()>)
    ensures
        final(buf)@.len() == old(buf)@.len(),
        cur_inner(final(c)) == cur_inner(old(c)),
        cur_pos(old(c)) as int + old(buf)@.len() <= cur_buf(old(c)).len() ==> r is Ok
            && cur_pos(final(c)) as int == cur_pos(old(c)) as int + old(buf)@.len()
            && final(buf)@ == cur_buf(old(c)).subrange(cur_pos(old(c)) as int, cur_pos(old(c)) as int + old(buf)@.len()),
        cur_pos(old(c)) as int + old(buf)@.len() > cur_buf(old(c)).len() ==> r is Err,
        r is Err ==> cur_pos(final(c)) as int <= cur_buf(old(c)).len() || cur_pos(final(c)) == cur_pos(old(c)),
;
// write_all on Cursor<Vec<u8>> positioned at the end of the vector appends; on Err nothing is claimed to be written
pub assume_specification<A: std::alloc::Allocator> [<std::io::Cursor<Vec<u8, A>> as std::io::Write>::write_all] (c: &mut std::io::Cursor<Vec<u8, A>>, buf: &[u8]) -> (r: std::io::Result<()>)
    ensures
        r is Ok ==> (cur_pos(old(c)) as int == cur_buf(old(c)).len() ==>
              cur_buf(final(c)) == cur_buf(old(c)) + buf@
              && cur_pos(final(c)) as int == cur_pos(old(c)) as int + buf@.len()),
        r is Err ==> cur_buf(final(c)) == cur_buf(old(c)) && cur_pos(final(c)) == cur_pos(old(c)),
;
pub assume_specification<A: std::alloc::Allocator> [<std::io::Cursor<Vec<u8, A>> as std::io::Write>::write] (c: &mut std::io::Cursor<Vec<u8, A>>, buf: &[u8]) -> (r: std::io::Result<usize>)
    ensures r matches Ok(n) ==> n <= buf@.len();
pub assume_specification<A: std::alloc::Allocator> [<std::io::Cursor<Vec<u8, A>> as std::io::Write>::flush] (c: &mut std::io::Cursor<Vec<u8, A>>) -> (r: std::io::Result<()>);
'''
