"""U-CAP-V: Verus contracts (unbounded in every size) for the rewindable input handle of src/input.rs:
CaptureReader::{new, captured, captured_unread_size, rewind, capture_to_end, capture_up_to_size,
is_source_eof, into_inner, read}, FusedReader::{new, read}, GuardedCaptureReader::{new,
rewind_and_borrow_mut, rewind_and_take}, Handle::{from_slice, borrow_mut}, Ref::prefix, and `impl From<Handle> for Input`
(a slice handle becomes that slice; a reader that reached EOF during detection becomes the slice of EVERYTHING captured, no
byte lost; any other reader stays a reader) -- the conversion that U-MP-X, U-JSN-V and U-CHK-V take as an assumed axiom;
`Cow::try_from(Handle)` (TOML input: slice passed through; a reader is read to its END before the buffer is handed out, what
was captured stays at the front, a reader error is returned and never swallowed).

Only specification text lives here; bodies are extracted verbatim from /repo on every run.
What the extraction changes (all visible as markers in the generated file and undone by the token check):
  * `impl<R> Read for CaptureReader<R>` / `impl<R> Read for FusedReader<R>`: the `read` functions are placed
    in an inherent impl of the same type (Verus cannot attach a precondition to a method of an external trait);
  * `pub(crate)` is dropped from `enum Ref` (Verus derives `open` spec functions for enums);
  * (T15) `fn rewind_and_take(mut self)`: `mut self` is not supported by Verus -> `(self)` plus `let mut verus_self = self;`,
    `self.` renamed to `verus_self.` in the two-line body;
  * (T6') `FusedReader::new(cursor).chain(source)` is redirected to the stand-in `io_chain(a, b)` (assumed: some reader);
  * `pub` added to `enum Input` in the generated file (the contract of the public trait method names its variants);
  * (T4') `impl TryFrom<Handle> for Cow<[u8]>`: `try_from` is placed at module level as a free function with the impl's lifetime
    parameter declared on it (a trait method cannot carry the `wf` precondition that `capture_to_end` needs; Cow is foreign);
  * dropped: `Handle::from_reader` (Box<dyn Read> construction); tests.  These stay with the Kani unit U-CAP.
The abstract view of a CaptureReader is (captured bytes, cursor position, source_eof); wf == position <= len.
"""
from . import std_specs as S

HEADER = S.CRATE_ATTRS + r'''// GENERATED on every run by /verif/bin/vcheck -- do not edit.  Executable items below are extracted
// verbatim from the working tree; ghost insertions are wrapped in /*@G<*/ ... /*@G>*/ markers.
use vstd::prelude::*;
use std::borrow::Cow;
use std::io::{self, Cursor, Read, Write};
verus! {
global size_of usize == 8;
''' + S.IO_TRAITS + S.MIN + S.CURSOR

CR_VIEW = r'''
    spec fn captured_v(&self) -> Seq<u8> { cur_buf(&self.prefix) }
    spec fn pos_v(&self) -> int { cur_pos(&self.prefix) as int }
    spec fn wf(&self) -> bool { 0 <= self.pos_v() <= self.captured_v().len() }
'''

NEW_SPEC = 'ensures r.wf(), r.pos_v() == 0, r.captured_v().len() == 0, !r.source_eof, r.source == source,'
CAPTURED_SPEC = 'ensures r@ == self.captured_v(),'
UNREAD_SPEC = '''requires self.wf(),
    ensures r as int == self.captured_v().len() - self.pos_v(),'''
REWIND_SPEC = '''ensures final(self).pos_v() == 0, final(self).captured_v() == old(self).captured_v(),
        final(self).source_eof == old(self).source_eof, final(self).source == old(self).source, final(self).wf(),'''
EOF_SPEC = 'ensures r == self.source_eof,'
INTO_INNER_SPEC = 'ensures r.0 == self.prefix, r.1 == self.source,'

# C09/C12: nothing captured is lost, the cursor does not move, an already complete capture is not touched;
# source_eof is set only on success.
TO_END_SPEC = '''requires old(self).wf(),
    ensures final(self).wf(),
        old(self).captured_v().is_prefix_of(final(self).captured_v()),
        final(self).pos_v() == old(self).pos_v(),
        r is Ok ==> final(self).source_eof,
        r is Err ==> final(self).source_eof == old(self).source_eof,
        old(self).source_eof ==> r is Ok && final(self).captured_v() == old(self).captured_v(),'''

# C05: never captures beyond max(len, size); C09: source_eof is raised only when the source delivered fewer bytes
# than requested, and never lowered; Ok without eof => at least `size` bytes are captured.
UP_TO_SPEC = '''requires old(self).wf(),
    ensures final(self).wf(),
        old(self).captured_v().is_prefix_of(final(self).captured_v()),
        final(self).pos_v() == old(self).pos_v(),
        final(self).captured_v().len() <= (if old(self).captured_v().len() >= size { old(self).captured_v().len() } else { size as nat }),
        final(self).source_eof && !old(self).source_eof ==> r is Ok && final(self).captured_v().len() < size,
        !final(self).source_eof ==> !old(self).source_eof,
        r is Ok && !final(self).source_eof ==> final(self).captured_v().len() >= size,
        old(self).captured_v().len() >= size ==> r is Ok && final(self).captured_v() == old(self).captured_v() && final(self).source_eof == old(self).source_eof,'''

# The step contract of the rewindable reader (C09, C02, C05, C12), from ANY well-formed state, for ANY buffer:
#   ps = min(|buf|, unread) bytes come from the capture; the source is consulted only if the capture is exhausted and
#   room is left; what the source delivers is appended to the capture (no byte lost, none invented) and handed out;
#   the cursor advances by exactly n; source_eof <=> the consulted source returned 0; on Err the capture is intact.
READ_SPEC = '''requires old(self).wf(),
    ensures final(self).wf(),
        final(buf)@.len() == old(buf)@.len(),
        old(self).captured_v().is_prefix_of(final(self).captured_v()),
        r matches Ok(n) ==> {
            let unread = old(self).captured_v().len() - old(self).pos_v();
            let ps = if old(buf)@.len() <= unread { old(buf)@.len() as int } else { unread };
            &&& ps <= n <= old(buf)@.len()
            &&& final(self).pos_v() == old(self).pos_v() + n
            &&& final(buf)@.subrange(0, n as int) == final(self).captured_v().subrange(old(self).pos_v(), old(self).pos_v() + n)
            &&& final(self).captured_v() == old(self).captured_v() + final(buf)@.subrange(ps, n as int)
            &&& (unread > ps || ps == old(buf)@.len() ==> n == ps && final(self).source_eof == old(self).source_eof)
            &&& (!(unread > ps || ps == old(buf)@.len()) ==> final(self).source_eof == (n == ps))
        },
        r is Err ==> final(self).captured_v() == old(self).captured_v() && final(self).source_eof == old(self).source_eof,'''

# C05: the inner reader (the captured prefix) is dropped at its first EOF and never consulted again
FUSED_READ_SPEC = '''ensures final(buf)@.len() == old(buf)@.len(),
        old(self).0 is None ==> r == Ok::<usize, io::Error>(0) && final(self).0 is None,
        r matches Ok(n) ==> n <= old(buf)@.len()
            && (final(self).0 is None <==> (old(self).0 is None || (n == 0 && old(buf)@.len() > 0))),
        r is Err ==> final(self).0 is Some,'''

GUARD_NEW_SPEC = 'ensures g.0.wf(), g.0.pos_v() == 0, g.0.captured_v().len() == 0, !g.0.source_eof,'
GUARD_BORROW_SPEC = '''ensures r.pos_v() == 0, r.captured_v() == old(self).0.captured_v(), r.source_eof == old(self).0.source_eof,
        r.source == old(self).0.source, r.wf(),
        *final(r) == final(self).0,'''

GUARD_TAKE_SPEC = '''ensures r.pos_v() == 0, r.captured_v() == self.0.captured_v(), r.source_eof == self.0.source_eof,
        r.source == self.0.source, self.0.wf() ==> r.wf(),'''
# C05 / C09 / C02: what a consumed handle turns into -- a slice stays that slice; a reader that reached EOF during detection
# becomes the slice of everything captured (the reader is dropped); otherwise some reader (which one -- the source itself when
# nothing was captured, else the captured prefix chained before the source -- is decided by the Kani unit U-CAP, input_from_handle_decision).
INPUT_FROM_SPEC = '''ensures
        handle.slice_v() matches Some(b) ==> (r matches Input::Slice(c) && c@ == b),
        handle.slice_v() is None ==> {
            &&& (handle.rd_eof() ==> (r matches Input::Slice(c) && c@ == handle.rd_captured()))
            &&& (!handle.rd_eof() ==> r is Reader)
        },'''
# C02 / C12 (TOML input): the whole input as one slice -- a slice handle is passed through; a reader is read to its end and
# everything captured so far stays at the front (no byte lost, none reordered); a reader error is returned
TRY_FROM_SPEC = '''requires handle.hwf(),
    ensures
        handle.slice_v() matches Some(b) ==> (r matches Ok(c) && c@ == b),
        handle.slice_v() is None ==> (r matches Ok(c) ==> handle.rd_captured().is_prefix_of(c@) && (handle.rd_eof() ==> c@ == handle.rd_captured())),'''
HANDLE_VIEW = r'''
    spec fn hwf(&self) -> bool {
        match self.0 { Source::Slice(_) => true, Source::Reader(g) => g.0.wf() }
    }
    // views for the contract of the (public) trait method `From<Handle> for Input`
    pub closed spec fn slice_v(&self) -> Option<Seq<u8>> { match self.0 { Source::Slice(b) => Some(b@), Source::Reader(_) => None } }
    pub closed spec fn rd_eof(&self) -> bool { match self.0 { Source::Slice(_) => false, Source::Reader(g) => g.0.source_eof } }
    pub closed spec fn rd_captured(&self) -> Seq<u8> { match self.0 { Source::Slice(_) => Seq::empty(), Source::Reader(g) => g.0.captured_v() } }
    pub closed spec fn rd_source(&self) -> Option<Box<dyn Read + 'i>> { match self.0 { Source::Slice(_) => None, Source::Reader(g) => Some(g.0.source) } }
'''
REF_VIEW = r'''
    spec fn rwf(&self) -> bool {
        match self { Ref::Slice(_) => true, Ref::Reader(r) => r.wf() }
    }
'''
FROM_SLICE_SPEC = 'ensures h.0 == Source::Slice(b), h.hwf(),'
# C09: every borrow starts at byte 0 of the same capture; a fully buffered reader is presented as the slice of
# everything captured; a slice input is handed out as itself.
BORROW_SPEC = '''requires old(self).hwf(),
    ensures
        old(self).0 matches Source::Slice(b) ==> r == Ref::Slice(b),
        old(self).0 matches Source::Reader(g) ==> {
            &&& (g.0.source_eof ==> (r matches Ref::Slice(s) && s@ == g.0.captured_v()))
            &&& (!g.0.source_eof ==> (r matches Ref::Reader(cr) && cr.pos_v() == 0 && cr.captured_v() == g.0.captured_v()
                    && !cr.source_eof && cr.wf()))
        },
        r.rwf(),'''
PREFIX_SPEC = '''requires old(self).rwf(),
    ensures
        *old(self) matches Ref::Slice(b) ==> (r matches Ok(p) && p@ == b@),
        *old(self) matches Ref::Reader(cr) ==> (r matches Ok(p) ==> {
            &&& cr.captured_v().is_prefix_of(p@)
            &&& p@.len() <= (if cr.captured_v().len() >= size_hint { cr.captured_v().len() } else { size_hint as nat })
            &&& (cr.captured_v().len() >= size_hint ==> p@ == cr.captured_v())
            // C09: the request is honoured -- at least size_hint bytes, unless the source ended first (then the reader is marked complete)
            &&& (p@.len() >= size_hint || (*final(self) matches Ref::Reader(cr2) && cr2.source_eof))
        }),'''

CR_IMPL = r'\bimpl\s*<R>\s+CaptureReader\s*<R>'
CR_READ_IMPL = r'\bimpl\s*<R>\s+Read\s+for\s+CaptureReader\s*<R>'
FR_IMPL = r'\bimpl\s*<R>\s+FusedReader\s*<R>'
FR_READ_IMPL = r'\bimpl\s*<R>\s+Read\s+for\s+FusedReader\s*<R>'
GR_IMPL = r'\bimpl\s*<R>\s+GuardedCaptureReader\s*<R>'
H_IMPL = r"\bimpl\s*<'i>\s+Handle\s*<'i>"
REF_IMPL = r"\bimpl\s*<'i,\s*'h>\s+Ref\s*<'i,\s*'h>"
SRC = 'repo:src/input.rs'
BU = 'broadcast use axiom_vec_as_bytes, axiom_min_usize;'

ITEMS = [
    dict(src=SRC, kind='struct', name='CaptureReader'),
    dict(raw='impl<R> CaptureReader<R>\nwhere\n\tR: Read,\n{' + CR_VIEW),
    dict(src=SRC, kind='fn', name='new', within_impl=CR_IMPL, contract=dict(ret='r', spec=NEW_SPEC, prologue=BU)),
    dict(src=SRC, kind='fn', name='captured', within_impl=CR_IMPL, contract=dict(ret='r', spec=CAPTURED_SPEC, prologue=BU)),
    dict(src=SRC, kind='fn', name='captured_unread_size', within_impl=CR_IMPL,
         contract=dict(ret='r', spec=UNREAD_SPEC, prologue=BU + '\n proof { axiom_vec_as_bytes(cur_inner(&self.prefix)); }')),
    dict(src=SRC, kind='fn', name='rewind', within_impl=CR_IMPL, contract=dict(spec=REWIND_SPEC)),
    dict(src=SRC, kind='fn', name='capture_to_end', within_impl=CR_IMPL, contract=dict(ret='r', spec=TO_END_SPEC, prologue=BU)),
    dict(src=SRC, kind='fn', name='capture_up_to_size', within_impl=CR_IMPL, contract=dict(ret='r', spec=UP_TO_SPEC, prologue=BU)),
    dict(src=SRC, kind='fn', name='is_source_eof', within_impl=CR_IMPL, contract=dict(ret='r', spec=EOF_SPEC)),
    dict(src=SRC, kind='fn', name='into_inner', within_impl=CR_IMPL, contract=dict(ret='r', spec=INTO_INNER_SPEC)),
    dict(src=SRC, kind='fn', name='read', within_impl=CR_READ_IMPL, contract=dict(ret='r', spec=READ_SPEC, prologue=BU)),
    dict(raw='}'),
    dict(src=SRC, kind='struct', name='FusedReader'),
    dict(raw='impl<R> FusedReader<R>\nwhere\n\tR: Read,\n{'),
    dict(src=SRC, kind='fn', name='new', within_impl=FR_IMPL, contract=dict(ret='f', spec='ensures f.0 == Some(r),')),
    dict(src=SRC, kind='fn', name='read', within_impl=FR_READ_IMPL, contract=dict(ret='r', spec=FUSED_READ_SPEC)),
    # (the verified `read` above sits in an inherent impl (T4); this external impl only tells the type checker that FusedReader is a Read)
    dict(raw='}\n#[verifier::external]\nimpl<R: Read> Read for FusedReader<R> { fn read(&mut self, buf: &mut [u8]) -> io::Result<usize> { unimplemented!() } }'),
    dict(src=SRC, kind='struct', name='GuardedCaptureReader'),
    dict(raw='impl<R> GuardedCaptureReader<R>\nwhere\n\tR: Read,\n{'),
    dict(src=SRC, kind='fn', name='new', within_impl=GR_IMPL, contract=dict(ret='g', spec=GUARD_NEW_SPEC)),
    dict(src=SRC, kind='fn', name='rewind_and_borrow_mut', within_impl=GR_IMPL, contract=dict(ret='r', spec=GUARD_BORROW_SPEC)),
    # (T15) `mut self` receivers are not supported by Verus: `fn f(mut self) { ..self.. }` becomes `fn f(self) { let mut verus_self = self; ..verus_self.. }`
    dict(src=SRC, kind='fn', name='rewind_and_take', within_impl=GR_IMPL,
         contract=dict(ret='r', spec=GUARD_TAKE_SPEC, prologue='let mut verus_self = self;',
                       rewrites=[dict(find=r'\(\s*mut\s+self\s*\)', to='(self)', required=True), dict(find=r'\bself\s*\.', to='verus_self.')])),
    dict(raw='}'),
    dict(src=SRC, kind='struct', name='Handle'),
    dict(src=SRC, kind='enum', name='Source'),
    dict(src=SRC, kind='enum', name='Ref', drop_vis=True),
    dict(raw="impl<'i> Handle<'i> {" + HANDLE_VIEW),
    dict(src=SRC, kind='fn', name='from_slice', within_impl=H_IMPL, contract=dict(ret='h', spec=FROM_SLICE_SPEC)),
    dict(src=SRC, kind='fn', name='borrow_mut', within_impl=H_IMPL, contract=dict(ret='r', spec=BORROW_SPEC)),
    dict(raw='}'),
    dict(src=SRC, kind='enum', name='Input', drop_vis=True, wrap=('pub', '')),
    dict(raw="impl<'i> vstd::std_specs::convert::FromSpecImpl<Handle<'i>> for Input<'i> {\n    open spec fn obeys_from_spec() -> bool { false }\n    open spec fn from_spec(h: Handle<'i>) -> Input<'i> { arbitrary() }\n}\nimpl<'i> From<Handle<'i>> for Input<'i> {"),
    dict(src=SRC, kind='fn', name='from', within_impl=r"\bimpl\s*<'i>\s+From\s*<Handle\s*<'i>>\s+for\s+Input\s*<'i>", contract=dict(ret='r', spec=INPUT_FROM_SPEC, prologue=BU,
                       # (T6') `a.chain(b)` -> stand-in `io_chain(a, b)`
                       rewrites=[dict(find=r'(FusedReader::new\(\s*\w+\s*\))\s*\.\s*chain\(\s*(\w+)\s*\)', to=r'io_chain(\1, \2)', expand=True)],
                       # C03 / C02: the source may be handed on bare only when NOTHING was captured from it (else captured bytes are lost)
                       inserts=[dict(before=r'Input::Reader\(\s*source\s*\)', text='proof { assert(cur_buf(&cursor).len() == 0); }')])),
    dict(raw='}'),
    # (T4') `impl TryFrom<Handle> for Cow<[u8]>`: a trait method cannot carry the `wf` precondition and Cow is a foreign type, so
    # `try_from` is placed at module level as a free function (its lifetime parameter, declared on the impl, is declared on the fn)
    dict(src=SRC, kind='fn', name='try_from', within_impl=r"\bimpl\s*<'i>\s+TryFrom\s*<Handle\s*<'i>>\s+for\s+Cow\s*<'i,\s*\[u8\]>",
         contract=dict(ret='r', spec=TRY_FROM_SPEC, prologue=BU, rewrites=[dict(find=r"^\s*\(", to="<'i>(", required=True)],
                       # C12: the buffer is handed out only after the source was read to its end (a reader fault cannot be swallowed)
                       inserts=[dict(before=r'let\s*\(\s*cursor\s*,\s*_\s*\)\s*=', text='proof { assert(r.source_eof); }')])),
    dict(raw="impl<'i, 'h> Ref<'i, 'h>\nwhere\n\t'i: 'h,\n{" + REF_VIEW),
    dict(src=SRC, kind='fn', name='prefix', within_impl=REF_IMPL, contract=dict(ret='r', spec=PREFIX_SPEC)),
    dict(raw='}'),
]

CONSTS = []

# ---------------------------------------------------------------------------------------------------------
# Lemmas over the contracts: from the step contract to every history (C09 / C02).
# `Abs` is the abstract view; `read_step` is literally the Ok-branch of READ_SPEC over views; the theorem says that
# after ANY sequence of successful reads that starts at position 0 (i.e. after a rewind / a fresh borrow) the
# concatenation of everything handed to the consumer is exactly capture[0..pos]: the consumer sees the stream from
# byte 0, in order, with no byte lost, duplicated or invented, whatever the sizes of the individual reads were and
# however many of the bytes were served from the capture or fetched from the source.
# ---------------------------------------------------------------------------------------------------------
LEMMAS = r'''
pub struct Abs { pub cap: Seq<u8>, pub pos: int }

pub open spec fn abs_wf(a: Abs) -> bool { 0 <= a.pos <= a.cap.len() }

// the Ok-branch of CaptureReader::read's contract, over abstract views; `out` = buf[..n]
pub open spec fn read_step(a: Abs, b: Abs, out: Seq<u8>) -> bool {
    &&& abs_wf(a) && abs_wf(b)
    &&& a.cap.is_prefix_of(b.cap)
    &&& b.pos == a.pos + out.len()
    &&& out == b.cap.subrange(a.pos, a.pos + out.len())
}

pub open spec fn concat(outs: Seq<Seq<u8>>) -> Seq<u8>
    decreases outs.len()
{
    if outs.len() == 0 { Seq::<u8>::empty() } else { concat(outs.drop_last()) + outs.last() }
}

// states[0] --outs[0]--> states[1] --outs[1]--> ... (|states| == |outs| + 1)
pub open spec fn chain(states: Seq<Abs>, outs: Seq<Seq<u8>>) -> bool {
    &&& states.len() == outs.len() + 1
    &&& forall|i: int| 0 <= i < outs.len() ==> read_step(#[trigger] states[i], states[i + 1], outs[i])
}

pub proof fn lemma_prefix_trans(a: Seq<u8>, b: Seq<u8>, c: Seq<u8>)
    requires a.is_prefix_of(b), b.is_prefix_of(c),
    ensures a.is_prefix_of(c),
{
    assert(a.len() <= c.len());
    assert forall|i: int| 0 <= i < a.len() implies a[i] == c[i] by { assert(a[i] == b[i]); assert(b[i] == c[i]); }
    assert(a =~= c.subrange(0, a.len() as int));
}

pub proof fn theorem_reads_after_rewind_replay_the_stream(states: Seq<Abs>, outs: Seq<Seq<u8>>)
    requires chain(states, outs), states[0].pos == 0, abs_wf(states[0]),
    ensures
        abs_wf(states.last()),
        states[0].cap.is_prefix_of(states.last().cap),
        concat(outs) == states.last().cap.subrange(0, states.last().pos),
    decreases outs.len()
{
    if outs.len() == 0 {
        assert(concat(outs) =~= states.last().cap.subrange(0, 0));
    } else {
        let s1 = states.drop_last();
        let o1 = outs.drop_last();
        assert(chain(s1, o1)) by {
            assert forall|i: int| 0 <= i < o1.len() implies read_step(#[trigger] s1[i], s1[i + 1], o1[i]) by {
                assert(s1[i] == states[i]); assert(s1[i + 1] == states[i + 1]); assert(o1[i] == outs[i]);
            }
        }
        theorem_reads_after_rewind_replay_the_stream(s1, o1);
        let k = outs.len() - 1;
        let a = states[k]; let b = states[k + 1];
        assert(read_step(a, b, outs[k]));
        assert(s1.last() == a);
        assert(states.last() == b);
        lemma_prefix_trans(states[0].cap, a.cap, b.cap);
        // concat(o1) == a.cap[0..a.pos] == b.cap[0..a.pos] because a.cap is a prefix of b.cap
        assert(a.cap.subrange(0, a.pos) =~= b.cap.subrange(0, a.pos)) by {
            assert forall|i: int| 0 <= i < a.pos implies a.cap[i] == b.cap[i] by {
                assert(a.cap =~= b.cap.subrange(0, a.cap.len() as int));
                assert(b.cap.subrange(0, a.cap.len() as int)[i] == b.cap[i]);
            }
        }
        assert(concat(outs) == concat(o1) + outs.last());
        assert(b.cap.subrange(0, a.pos) + b.cap.subrange(a.pos, b.pos) =~= b.cap.subrange(0, b.pos));
    }
}
'''

FOOTER = '''
} // verus!
fn main() {}
'''
