"""U-JSN-V: Verus contract on the verbatim `json::transcode` (src/json.rs): how the parser's documents are handed to the
output, for inputs with ANY number of documents (including none).

Reader path (`while de.end().is_err() { output.transcode_from(&mut de)?; }`): a document is offered only when `end()` has
just reported that input remains (precondition-contract on `transcode_from`), exactly one offer per remaining-input
report, and `Ok(())` only after `end()` reported the end -- so an empty / whitespace-only reader input contributes
nothing and does not fail (C03, N = 0), and nothing is offered after the end; the loop is LEFT only when `end()` returned Ok
(loop `ensures at_end(&de)`): an I/O error or any other error of `end()` cannot end the translation with Ok (C12).
Slice path (`for value in de.into_iter::<Value>() { output.transcode_value(value?)?; }`): every value the stream iterator
yields is offered exactly once, in order; the first error stops the loop and is returned.

Stand-ins with ASSUMED contracts: `serde_json::Deserializer` / `StreamDeserializer` (ghost state `at_end`, ghost list of
yielded items), `crate::Output` with a ghost log, `Handle -> Input`, `str::from_utf8`, `BufReader`, `transcode::Value`
(opaque), `crate::Error`.  `Input` is extracted verbatim from src/input.rs.
Extraction rewrite: (T8) the `for` loop is replaced by its desugaring (loop + next).
"""

HEADER = r'''#![allow(unused)]
// GENERATED on every run by /verif/bin/vcheck -- do not edit.  Executable items below are extracted
// verbatim from the working tree; ghost insertions are wrapped in /*@G<*/ ... /*@G>*/ markers.
use vstd::prelude::*;
use std::borrow::Cow;
use std::io::{self, BufReader, Read, Write};
use std::str;
verus! {
#[verifier::external_type_specification] #[verifier::external_body] pub struct ExIoError(std::io::Error);
#[verifier::external_type_specification] #[verifier::external_body] pub struct ExUtf8Error(std::str::Utf8Error);
#[verifier::external_type_specification] #[verifier::external_body] #[verifier::reject_recursive_types(R)] pub struct ExBufReader<R: ?Sized>(std::io::BufReader<R>);
#[verifier::external_trait_specification]
pub trait ExRead {
    type ExternalTraitSpecificationFor: std::io::Read;
    fn read(&mut self, buf: &mut [u8]) -> (r: std::io::Result<usize>);
}
pub assume_specification<R: std::io::Read> [std::io::BufReader::<R>::new] (r: R) -> std::io::BufReader<R>;
pub assume_specification [std::str::from_utf8] (v: &[u8]) -> (r: std::result::Result<&str, std::str::Utf8Error>);

// ---- crate-level stand-ins (ASSUMED contracts) ----
#[verifier::external_body]
pub struct Error { _e: () }
pub type Result<T, E = Error> = std::result::Result<T, E>;
impl From<std::io::Error> for Error { #[verifier::external_body] fn from(e: std::io::Error) -> Self { unimplemented!() } }
impl From<std::str::Utf8Error> for Error { #[verifier::external_body] fn from(e: std::str::Utf8Error) -> Self { unimplemented!() } }
impl From<serde_json::Error> for Error { #[verifier::external_body] fn from(e: serde_json::Error) -> Self { unimplemented!() } }
pub mod serde {
    pub mod de { pub trait Error {} pub trait Deserializer<'de> { type Error; } pub trait Deserialize<'de>: Sized {} }
    pub mod ser { pub trait Serialize {} }
}
use serde::{de, ser};
pub mod transcode {
    use vstd::prelude::*;
    #[verifier::external_body] pub struct Value<'a> { _v: std::marker::PhantomData<&'a str> }
    impl<'de: 'a, 'a> super::de::Deserialize<'de> for Value<'a> {}
    impl<'a> super::ser::Serialize for Value<'a> {}
}
pub mod serde_json {
    use vstd::prelude::*;
    #[verifier::external_body] pub struct Error { _e: () }
    impl super::de::Error for Error {}
    // serde_json's error categories (uninterpreted: nothing links a category to "the input has ended")
    pub uninterp spec fn err_category(e: &Error) -> int;
    impl Error {
        #[verifier::external_body] pub fn is_io(&self) -> (r: bool) ensures r == (err_category(self) == 0), { unimplemented!() }
        #[verifier::external_body] pub fn is_syntax(&self) -> (r: bool) ensures r == (err_category(self) == 1), { unimplemented!() }
        #[verifier::external_body] pub fn is_data(&self) -> (r: bool) ensures r == (err_category(self) == 2), { unimplemented!() }
        #[verifier::external_body] pub fn is_eof(&self) -> (r: bool) ensures r == (err_category(self) == 3), { unimplemented!() }
    }
    #[verifier::external_body] pub struct StrRead<'a> { _r: std::marker::PhantomData<&'a str> }
    #[verifier::external_body] #[verifier::reject_recursive_types(R)] pub struct IoRead<R> { _r: std::marker::PhantomData<R> }
    #[verifier::external_body] #[verifier::reject_recursive_types(R)] pub struct Deserializer<R> { _r: std::marker::PhantomData<R> }
    #[verifier::external_body] #[verifier::reject_recursive_types(R)] #[verifier::reject_recursive_types(T)]
    pub struct StreamDeserializer<R, T> { _r: std::marker::PhantomData<(R, T)> }
    // ghost state of a reader deserializer: only whitespace / nothing is left
    pub uninterp spec fn at_end<R>(d: &Deserializer<R>) -> bool;
    // ghost log of a value stream: how many items it has yielded so far, and whether the last one was an error
    pub uninterp spec fn yielded<R, T>(s: &StreamDeserializer<R, T>) -> nat;
    pub uninterp spec fn stream_done<R, T>(s: &StreamDeserializer<R, T>) -> bool;
    impl<'a> Deserializer<StrRead<'a>> {
        #[verifier::external_body]
        pub fn from_str(s: &'a str) -> Self { unimplemented!() }
    }
    impl<R: std::io::Read> Deserializer<IoRead<R>> {
        #[verifier::external_body]
        pub fn from_reader(r: R) -> Self { unimplemented!() }
    }
    impl<R> Deserializer<R> {
        // Ok(()) iff only whitespace remains; the verdict is stable until something is consumed
        #[verifier::external_body]
        pub fn end(&mut self) -> (r: Result<(), Error>)
            ensures (r is Ok) == at_end(final(self)),
        { unimplemented!() }
        #[verifier::external_body]
        pub fn into_iter<'de, T: super::de::Deserialize<'de>>(self) -> (s: StreamDeserializer<R, T>)
            ensures yielded(&s) == 0, !stream_done(&s),
        { unimplemented!() }
    }
    impl<R, T> StreamDeserializer<R, T> {
        // the iterator protocol of serde_json's StreamDeserializer (inherent stand-in for Iterator::next)
        #[verifier::external_body]
        pub fn next(&mut self) -> (r: Option<Result<T, Error>>)
            requires !stream_done(old(self)),
            ensures r is Some ==> yielded(final(self)) == yielded(old(self)) + 1 && !stream_done(final(self)),
                r is None ==> yielded(final(self)) == yielded(old(self)) && stream_done(final(self)),
        { unimplemented!() }
    }
    impl<'de, 'x, R> super::de::Deserializer<'de> for &'x mut Deserializer<R> { type Error = Error; }
}
// whether the reader deserializer handed to the output still had input when it was handed over
pub uninterp spec fn de_has_input<D>(d: &D) -> bool;
#[verifier::external_body]
pub broadcast proof fn axiom_de_has_input<R>(m: &&mut serde_json::Deserializer<R>)
    ensures #[trigger] de_has_input::<&mut serde_json::Deserializer<R>>(m) == !serde_json::at_end(&*old(*m)),
{ }
// ghost log of an output: number of documents offered so far
pub uninterp spec fn out_count<O: ?Sized>(o: &O) -> nat;
trait Output {
    // C03: a document may only be requested from a deserializer that has input left
    fn transcode_from<'de, D, E>(&mut self, de: D) -> (r: Result<()>)
    where
        D: de::Deserializer<'de, Error = E>,
        E: de::Error + Send + Sync + 'static,
        requires de_has_input(&de),
        ensures out_count(final(self)) == out_count(old(self)) + 1,
    ;
    fn transcode_value<S>(&mut self, value: S) -> (r: Result<()>)
    where
        S: ser::Serialize,
        ensures out_count(final(self)) == out_count(old(self)) + 1,
    ;
    fn flush(&mut self) -> std::io::Result<()>;
}

pub mod input {
    use vstd::prelude::*;
    use std::borrow::Cow;
    use std::io::Read;
    #[verifier::external_body]
    pub struct Handle<'i> { _h: std::marker::PhantomData<&'i [u8]> }
'''

INPUT_TAIL = r'''
    pub uninterp spec fn input_of<'i>(h: Handle<'i>) -> Input<'i>;
    impl<'i> vstd::std_specs::convert::FromSpecImpl<Handle<'i>> for Input<'i> {
        open spec fn obeys_from_spec() -> bool { true }
        open spec fn from_spec(h: Handle<'i>) -> Input<'i> { input_of(h) }
    }
    impl<'i> From<Handle<'i>> for Input<'i> {
        #[verifier::external_body]
        fn from(handle: Handle<'i>) -> (r: Self) ensures r == input_of(handle), { unimplemented!() }
    }
}
use input::Input;
'''

# slice loop: one offer per value the stream yields, in order
FOR_TO = (r'let ghost n0 = out_count(&output); let mut verus_iter = \2; '
          r'loop invariant_except_break !serde_json::stream_done(&verus_iter), invariant out_count(&output) == n0 + serde_json::yielded(&verus_iter), '
          r'{ let \1 = match verus_iter.next() { None => break, Some(verus_item) => verus_item };')
# C03 / C12 (reader path): the loop is left only when end() has reported that nothing but whitespace remains -- a reader
# fault or any other error of end() cannot end the translation with Ok
READER_INV = '''invariant true,
        ensures serde_json::at_end(&de),'''

ITEMS = [
    dict(src='repo:src/input.rs', kind='enum', name='Input', drop_vis=True, wrap=('    pub', '')),
    dict(raw=INPUT_TAIL),
    dict(src='repo:src/json.rs', kind='fn', name='transcode',
         contract=dict(ret='r', spec='ensures true,', attrs=['#[verifier::exec_allows_no_decreases_clause]'],   # termination = the input ends; not proved
                       prologue='broadcast use axiom_de_has_input;',
                       loops=[dict(ordinal=1, clauses=READER_INV)],
                       inserts_all=[dict(after=r'\b(while\s[^{]*|loop\s*)\{', text='broadcast use axiom_de_has_input;', count=1)],   # kind left open: a `loop` with a break is held to the same exit condition
                       rewrites=[dict(find=r'for\s+(\w+)\s+in\s+([^{]+?)\s*\{', to=FOR_TO, expand=True)])),
]

CONSTS = []
LEMMAS = ''
FOOTER = '''
} // verus!
fn main() {}
'''
