"""U-MAIN-V: Verus contract on the command-line driver `fn main()` of src/main.rs (with the xt_bail! / xt_bail_path!
macros of src/bail.rs expanded in place), for EVERY argument vector, list of inputs and outcome of each step.

`main()` is extracted verbatim.  Everything it calls outside itself is a stand-in with an ASSUMED contract (listed in
the evidence): the library (`xt::Translator` -- its calls are recorded in a ghost log), the `lexopt` crate (an abstract token stream behind `Parser::next` / `value`),
`InputPath::{open, extension_format}` (the extension table itself is proved by the Kani unit U-EXT), the iterator
`InputPaths` (assumed lawful), `pipecheck::Writer` (Kani unit U-PIPE), std's stdio handles, `process::exit`, and the
`Display` impls used in messages.  `xt::Format` is extracted verbatim from src/lib.rs.

What is proved (loop invariant, i.e. at every loop head, hence at every later exit and at normal return):
  * C14: the i-th translate call received `from == match -f { Some(f) => Some(f), None => extension_format(path_i) }`
    -- precedence -f > extension > detection (None), resolved afresh for every input; stdin appears at most once
    among the inputs that were translated (a second `-` is refused before anything is read); `impl From<PathBuf> for
    InputPath` (verbatim): an argument is standard input exactly when it is EQUAL (std's path equality, assumed
    uninterpreted) to the path `-`, any other argument is that file -- `ends_with` / `starts_with` carry uninterpreted
    specs of their own, so `./-` or `dir/-` read as stdin fails the postcondition instead of being undecided;
  * C03: exactly one translate call per path the iterator produced, in iterator order, all on the ONE translator created
    before the loop; every call so far returned Ok (a failure leaves through process::exit);
  * C15: nothing is pending in the translator at a loop head: every finished input has been flushed (flush returned Ok)
    before the next input is opened, so an error exit (which runs no destructors) cannot lose finished output, and a
    normal return leaves nothing unflushed;
  * C13 / C04: `usage_name` (verbatim) obtains the program name without a call that can panic: `std::env::args` carries the
    contract `requires false` (it panics on a non-Unicode argument), `args_os` + `into_string` are total;
  * C13: `Cli::parse_args` (verbatim) returns Err exactly for the command lines the token-stream model `parse_model` calls
    invalid, and a faithful Cli otherwise (any length); the translator is never created when stdout is a terminal and the
    target is MessagePack.

What the extraction changes (markers, undone by the token check): (T8) `for path in input_paths {` is replaced by its
language-reference desugaring `let mut it = input_paths; loop { let path = match it.next() { None => break, Some(x) => x };`
(Verus' own `for` support needs termination facts that an external iterator cannot supply); (T9) the closure
`|| path.extension_format()` is given an `ensures` clause (and braces).  Loop termination is not proved
(`exec_allows_no_decreases_clause`): it is the finiteness of the argument list.
"""

HEADER = r'''#![allow(unused)]
// GENERATED on every run by /verif/bin/vcheck -- do not edit.  Executable items below are extracted
// verbatim from the working tree; ghost insertions are wrapped in /*@G<*/ ... /*@G>*/ markers.
use vstd::prelude::*;
use vstd::std_specs::iter::IteratorSpec;
use std::fmt;
use std::fs::File;
use std::io::{self, BufWriter, IsTerminal, Write};
use std::borrow::Cow;
use std::env;
use std::path::{Path, PathBuf};
use std::process;
'''

STD = r'''
verus! {
// ---- assumed std stand-ins (stdio handles, process::exit, Option::or_else, fmt requirements) ----
#[verifier::external_type_specification] #[verifier::external_body] pub struct ExIoError(std::io::Error);
#[verifier::external_type_specification] #[verifier::external_body] pub struct ExPathBuf(std::path::PathBuf);
#[verifier::external_type_specification] #[verifier::external_body] pub struct ExFile(std::fs::File);
#[verifier::external_type_specification] #[verifier::external_body] pub struct ExStderr(std::io::Stderr);
#[verifier::external_type_specification] #[verifier::external_body] pub struct ExStderrLock<'a>(std::io::StderrLock<'a>);
#[verifier::external_type_specification] #[verifier::external_body] pub struct ExStdout(std::io::Stdout);
#[verifier::external_type_specification] #[verifier::external_body] pub struct ExStdoutLock<'a>(std::io::StdoutLock<'a>);
#[verifier::external_type_specification] #[verifier::external_body] pub struct ExStdin(std::io::Stdin);
#[verifier::external_type_specification] #[verifier::external_body] pub struct ExStdinLock<'a>(std::io::StdinLock<'a>);
#[verifier::external_type_specification] #[verifier::external_body] #[verifier::reject_recursive_types(W)] pub struct ExBufWriter<W: ?Sized + std::io::Write>(std::io::BufWriter<W>);
// C13: the only statuses xt exits with are 0 (help / version in parse_args, or the normal return), 1 (failure) and 2 (invalid command line)
// -- and each status is tied to its cause (the command line of this process is `lexopt::env_args()`, a constant of the run):
// 2 exactly when the command line is invalid (so 0 and 1 never for an invalid one, and 2 never for a valid one);
// an exit with 0 only for a help / version request (the other status 0 is main()'s normal return, which needs a valid command line)
pub assume_specification [std::process::exit] (code: i32) -> !
    requires 0 <= code <= 2,
        (code == 2) == (parse_model(lexopt::env_args(), None, None, 0) == Outcome::Invalid),
        code == 0 ==> parse_model(lexopt::env_args(), None, None, 0) == Outcome::Exits,
        code == 1 ==> parse_model(lexopt::env_args(), None, None, 0) is Valid;   // a failure status is never the answer to -h / -V
pub assume_specification [std::io::stderr] () -> std::io::Stderr;
pub assume_specification [std::io::Stderr::lock] (s: &std::io::Stderr) -> std::io::StderrLock<'static>;
pub assume_specification [std::io::stdout] () -> std::io::Stdout requires !(parse_model(lexopt::env_args(), None, None, 0) == Outcome::Invalid);   // C13: an invalid command line never touches standard output
pub assume_specification [std::io::Stdout::lock] (s: &std::io::Stdout) -> std::io::StdoutLock<'static>;
pub assume_specification [std::io::stdin] () -> std::io::Stdin;
pub assume_specification [std::io::Stdin::lock] (s: &std::io::Stdin) -> std::io::StdinLock<'static>;
// whether this process' standard output is a terminal (a fact about the environment)
pub uninterp spec fn stdout_is_tty() -> bool;
pub assume_specification [<std::io::Stdout as std::io::IsTerminal>::is_terminal] (s: &std::io::Stdout) -> (r: bool)
    ensures r == stdout_is_tty();
pub assume_specification<W> [std::io::BufWriter::<W>::new] (w: W) -> std::io::BufWriter<W> where W: std::io::Write;
#[verifier::external_trait_specification]
pub trait ExWrite {
    type ExternalTraitSpecificationFor: std::io::Write;
    fn write(&mut self, buf: &[u8]) -> (r: std::io::Result<usize>);
    fn flush(&mut self) -> (r: std::io::Result<()>);
    fn write_fmt(&mut self, args: std::fmt::Arguments<'_>) -> (r: std::io::Result<()>);
}
#[verifier::external_trait_specification]
pub trait ExRead {
    type ExternalTraitSpecificationFor: std::io::Read;
    fn read(&mut self, buf: &mut [u8]) -> (r: std::io::Result<usize>);
}
#[verifier::allow(undeclared_external_trait)]
pub assume_specification<T, F> [std::option::Option::<T>::or_else] (o: std::option::Option<T>, f: F) -> (r: std::option::Option<T>)
    where
    F: std::ops::FnOnce() -> std::option::Option<T> + std::marker::Destruct,
    T: std::marker::Destruct,
    requires o is None ==> f.requires(()),
    ensures o is Some ==> r == o, o is None ==> f.ensures((), r),
;
// vstd demands `fmt_req_all::<T>()` of every type used in a format string; assumed for the types main() prints
#[verifier::external_body] pub broadcast proof fn axiom_fmt_lexopt() ensures #[trigger] vstd::std_specs::fmt::fmt_req_all::<LexoptError>() {}
#[verifier::external_body] pub broadcast proof fn axiom_fmt_format() ensures #[trigger] vstd::std_specs::fmt::fmt_req_all::<xt::Format>() {}
#[verifier::external_body] pub broadcast proof fn axiom_fmt_input_path() ensures #[trigger] vstd::std_specs::fmt::fmt_req_all::<InputPath>() {}
#[verifier::external_body] pub broadcast proof fn axiom_fmt_io_error() ensures #[trigger] vstd::std_specs::fmt::fmt_req_all::<std::io::Error>() {}
#[verifier::external_body] pub broadcast proof fn axiom_fmt_xt_error() ensures #[trigger] vstd::std_specs::fmt::fmt_req_all::<xt::Error>() {}
#[verifier::external_body] pub broadcast proof fn axiom_fmt_arguments<'a>() ensures #[trigger] vstd::std_specs::fmt::fmt_req_all::<std::fmt::Arguments<'a>>() {}
pub broadcast group group_fmt_xt { axiom_fmt_lexopt, axiom_fmt_format, axiom_fmt_input_path, axiom_fmt_io_error, axiom_fmt_xt_error, axiom_fmt_arguments }

// ---- the library as seen from the CLI: stand-in for the `xt` crate (Format is extracted verbatim below) ----
pub mod xt {
    use vstd::prelude::*;
'''

XT_REST = r'''
    #[verifier::external_body]
    pub struct Error { _e: () }
    #[verifier::external_body]
    #[verifier::reject_recursive_types(W)]
    pub struct Translator<W> { _w: std::marker::PhantomData<W> }

    // ghost log of one translate call
    pub struct Call { pub from: Option<Format>, pub slice: bool, pub ok: bool }
    pub uninterp spec fn tr_calls<W>(t: &Translator<W>) -> Seq<Call>;
    // output has been produced since the last successful flush
    pub uninterp spec fn tr_dirty<W>(t: &Translator<W>) -> bool;
    pub uninterp spec fn tr_to<W>(t: &Translator<W>) -> Format;

    impl<W: std::io::Write> Translator<W> {
        // C13 (one clause): MessagePack must never be sent to a terminal
        #[verifier::external_body]
        pub fn new(output: W, to: Format) -> (t: Translator<W>)
            requires !(super::stdout_is_tty() && to is Msgpack),
            ensures tr_calls(&t).len() == 0, !tr_dirty(&t), tr_to(&t) == to,
        { unimplemented!() }
        #[verifier::external_body]
        pub fn translate_slice(&mut self, input: &[u8], from: Option<Format>) -> (r: Result<(), Error>)
            ensures tr_calls(final(self)) == tr_calls(old(self)).push(Call { from, slice: true, ok: r is Ok }), tr_to(final(self)) == tr_to(old(self)),
        { unimplemented!() }
        #[verifier::external_body]
        pub fn translate_reader<R: std::io::Read>(&mut self, input: R, from: Option<Format>) -> (r: Result<(), Error>)
            ensures tr_calls(final(self)) == tr_calls(old(self)).push(Call { from, slice: false, ok: r is Ok }), tr_to(final(self)) == tr_to(old(self)),
        { unimplemented!() }
        // (that Translator::flush forwards to the writer's flush is proved by the Kani unit U-LIB)
        #[verifier::external_body]
        pub fn flush(&mut self) -> (r: std::io::Result<()>)
            ensures tr_calls(final(self)) == tr_calls(old(self)), tr_to(final(self)) == tr_to(old(self)), r is Ok ==> !tr_dirty(final(self)),
        { unimplemented!() }
    }
}
use xt::Format;
use xt::{tr_calls, tr_dirty, tr_to};

pub mod pipecheck {
    use vstd::prelude::*;
    #[verifier::external_body]
    #[verifier::reject_recursive_types(W)]
    pub struct Writer<W> { _w: std::marker::PhantomData<W> }
    impl<W: std::io::Write> Writer<W> {
        #[verifier::external_body]
        pub fn new(w: W) -> Writer<W> { unimplemented!() }
    }
    #[verifier::external]
    impl<W: std::io::Write> std::io::Write for Writer<W> {
        fn write(&mut self, buf: &[u8]) -> std::io::Result<usize> { unimplemented!() }
        fn flush(&mut self) -> std::io::Result<()> { unimplemented!() }
    }
}
pub mod memmap2 {
    use vstd::prelude::*;
    #[verifier::external_body]
    pub struct Mmap { _m: () }
    #[verifier::external]
    impl std::ops::Deref for Mmap { type Target = [u8]; fn deref(&self) -> &[u8] { unimplemented!() } }
}
// ---- stand-in for the lexopt crate: an abstract token stream (ASSUMED contract of lexopt's argument splitting) ----
pub mod lexopt {
    use vstd::prelude::*;
    #[verifier::external_body] pub struct Error { _e: () }
    impl<'a> From<&'a str> for Error { #[verifier::external_body] fn from(s: &'a str) -> Self { unimplemented!() } }
    #[verifier::external_body] pub struct Parser { _p: () }
    pub enum Arg<'a> { Short(char), Long(&'a str), Value(std::ffi::OsString) }
    // how next() classifies a token
    pub enum Item { Short(char), LongHelp, LongVersion, LongOther, Value, Broken }
    // one token of the command line as lexopt hands it out (attached values such as -fjson count as two tokens)
    pub struct Tok { pub item: Item, pub text: &'static str }
    pub uninterp spec fn rest(p: &Parser) -> Seq<Tok>;
    pub uninterp spec fn env_args() -> Seq<Tok>;
    pub uninterp spec fn os_text(v: &std::ffi::OsString) -> &'static str;
    pub open spec fn arg_is(a: Arg<'_>, t: Tok) -> bool {
        match a {
            Arg::Short(c) => t.item == Item::Short(c),
            Arg::Long(s) => (t.item == Item::LongHelp <==> s == "help") && (t.item == Item::LongVersion <==> s == "version")
                            && (t.item == Item::LongHelp || t.item == Item::LongVersion || t.item == Item::LongOther),
            Arg::Value(v) => t.item == Item::Value,
        }
    }
    impl Parser {
        #[verifier::external_body]
        pub fn from_env() -> (p: Parser) ensures rest(&p) == env_args(), { unimplemented!() }
        #[verifier::external_body]
        pub fn next(&mut self) -> (r: Result<Option<Arg<'_>>, Error>)
            ensures
                rest(old(self)).len() == 0 ==> (r matches Ok(None) && rest(final(self)).len() == 0),
                rest(old(self)).len() > 0 ==> {
                    let t = rest(old(self))[0];
                    &&& rest(final(self)) == rest(old(self)).drop_first()
                    &&& (t.item == Item::Broken <==> r is Err)
                    &&& (r matches Ok(o) ==> (o matches Some(a) && arg_is(a, t)))
                },
        { unimplemented!() }
        // the value of the option just seen: the next token whatever it looks like; missing at the end of the command line
        #[verifier::external_body]
        pub fn value(&mut self) -> (r: Result<std::ffi::OsString, Error>)
            ensures
                rest(old(self)).len() == 0 ==> r is Err && rest(final(self)).len() == 0,
                rest(old(self)).len() > 0 ==> (r matches Ok(v) && os_text(&v) == rest(old(self))[0].text && rest(final(self)) == rest(old(self)).drop_first()),
        { unimplemented!() }
    }
    impl<'a> Arg<'a> {
        #[verifier::external_body]
        pub fn unexpected(self) -> Error { unimplemented!() }
    }
    pub trait ValueExt {
        fn parse_with<F, T, E>(&self, func: F) -> (r: Result<T, Error>)
            where F: FnOnce(&str) -> Result<T, E>;
    }
    impl ValueExt for std::ffi::OsString {
        #[verifier::external_body]
        fn parse_with<F, T, E>(&self, func: F) -> (r: Result<T, Error>)
            where F: FnOnce(&str) -> Result<T, E>
            ensures
                r matches Ok(t) ==> func.ensures((os_text(self),), Ok::<T, E>(t)),
                r is Err ==> exists|e: E| func.ensures((os_text(self),), Err::<T, E>(e)),
        { unimplemented!() }
    }
    pub mod prelude { pub use super::Arg::*; pub use super::ValueExt; }
}
#[verifier::external_type_specification] #[verifier::external_body] pub struct ExOsString(std::ffi::OsString);
pub assume_specification [<std::path::PathBuf as std::convert::From<std::ffi::OsString>>::from] (s: std::ffi::OsString) -> std::path::PathBuf;
// ---- std::path as far as `impl From<PathBuf> for InputPath` (and its plausible variants) touches it: ASSUMED, uninterpreted ----
#[verifier::external_type_specification] #[verifier::external_body] pub struct ExPath(std::path::Path);
pub uninterp spec fn path_of<'a, S: ?Sized>(s: &'a S) -> &'a std::path::Path;        // Path::new(s)
pub uninterp spec fn pb_path<'a>(p: &'a std::path::PathBuf) -> &'a std::path::Path;  // the path a PathBuf holds
pub uninterp spec fn path_eq(a: &std::path::Path, b: &std::path::Path) -> bool;       // std's component-wise equality
pub uninterp spec fn path_ends_with(a: &std::path::Path, b: &std::path::Path) -> bool;
pub uninterp spec fn path_starts_with(a: &std::path::Path, b: &std::path::Path) -> bool;
pub assume_specification<'a, S: AsRef<std::ffi::OsStr> + ?Sized> [std::path::Path::new::<S>] (s: &'a S) -> (r: &'a std::path::Path)
    ensures r == path_of(s);
pub assume_specification<'a> [<std::path::PathBuf as PartialEq<&'a std::path::Path>>::eq] (a: &std::path::PathBuf, b: &&std::path::Path) -> (r: bool)
    ensures r == path_eq(pb_path(a), *b);
pub assume_specification<'a> [<std::path::PathBuf as std::ops::Deref>::deref] (p: &'a std::path::PathBuf) -> (r: &'a std::path::Path)
    ensures r == pb_path(p);
// variants a maintainer might reach for instead of `==` (uninterpreted relations: nothing links them to path equality)
pub uninterp spec fn as_path_of<P>(p: &P) -> &std::path::Path;
pub assume_specification<P: AsRef<std::path::Path>> [std::path::Path::ends_with::<P>] (a: &std::path::Path, child: P) -> (r: bool)
    ensures r == path_ends_with(a, as_path_of(&child));
pub assume_specification<P: AsRef<std::path::Path>> [std::path::Path::starts_with::<P>] (a: &std::path::Path, base: P) -> (r: bool)
    ensures r == path_starts_with(a, as_path_of(&base));
// ---- std::env as far as usage_name touches it ----
#[verifier::external_type_specification] #[verifier::external_body] pub struct ExArgsOs(std::env::ArgsOs);
#[verifier::external_type_specification] #[verifier::external_body] pub struct ExArgs(std::env::Args);
pub assume_specification [std::env::args_os] () -> std::env::ArgsOs;
// C13 / C04: `std::env::args()` PANICS when an argument is not valid Unicode (documented); the CLI must not call it
pub assume_specification [std::env::args] () -> std::env::Args
    requires false;
#[verifier::allow(undeclared_external_trait)]
pub assume_specification [<std::env::ArgsOs as Iterator>::next] (a: &mut std::env::ArgsOs) -> std::option::Option<std::ffi::OsString>;
#[verifier::allow(undeclared_external_trait)]
pub assume_specification [<std::env::Args as Iterator>::next] (a: &mut std::env::Args) -> std::option::Option<String>;
pub assume_specification [std::ffi::OsString::into_string] (s: std::ffi::OsString) -> std::result::Result<String, std::ffi::OsString>;
#[verifier::external_body]
const fn version_string() -> &'static str { "xt" }
#[verifier::external_body]
fn print_long_help() requires parse_model(lexopt::env_args(), None, None, 0) == Outcome::Exits   /* writes to stdout: only on request (C13) */ { unimplemented!() }
pub type LexoptError = lexopt::Error;

// what the extension table says for a path (proved equal to the documented table by the Kani unit U-EXT)
pub uninterp spec fn ext_format_spec(p: &InputPath) -> Option<Format>;
// C14: -f, else the extension, else None (= content detection inside the library)
pub open spec fn resolve(from: Option<Format>, p: &InputPath) -> Option<Format> {
    match from { Some(f) => Some(f), None => ext_format_spec(p) }
}
// ---- what a valid xt command line is, over lexopt's token stream (C13 / C14) ----
pub open spec fn name_format(s: &str) -> Option<Format> {
    if s == "j" || s == "json" { Some(Format::Json) }
    else if s == "m" || s == "msgpack" { Some(Format::Msgpack) }
    else if s == "t" || s == "toml" { Some(Format::Toml) }
    else if s == "y" || s == "yaml" { Some(Format::Yaml) }
    else { None }
}
pub enum Outcome { Valid(Option<Format>, Option<Format>, nat), Invalid, Exits }
// -f / -t take the next token as their value, may be given once each and need a valid format name; every other token
// that is not an option is an input path; -V / --version / -h / --help end the run; anything else is invalid
pub open spec fn parse_model(toks: Seq<lexopt::Tok>, from: Option<Format>, to: Option<Format>, n: nat) -> Outcome
    decreases toks.len()
{
    if toks.len() == 0 { Outcome::Valid(from, to, n) } else {
        match toks[0].item {
            lexopt::Item::Broken => Outcome::Invalid,
            lexopt::Item::Short(c) =>
                if c == 'f' {
                    if from is Some || toks.len() < 2 { Outcome::Invalid } else {
                        match name_format(toks[1].text) { None => Outcome::Invalid, Some(f) => parse_model(toks.skip(2), Some(f), to, n) }
                    }
                } else if c == 't' {
                    if to is Some || toks.len() < 2 { Outcome::Invalid } else {
                        match name_format(toks[1].text) { None => Outcome::Invalid, Some(f) => parse_model(toks.skip(2), from, Some(f), n) }
                    }
                } else if c == 'V' || c == 'h' { Outcome::Exits } else { Outcome::Invalid },
            lexopt::Item::LongVersion => Outcome::Exits,
            lexopt::Item::LongHelp => Outcome::Exits,
            lexopt::Item::LongOther => Outcome::Invalid,
            lexopt::Item::Value => parse_model(toks.drop_first(), from, to, n + 1),
        }
    }
}
pub broadcast proof fn lemma_tok_skip2(s: Seq<lexopt::Tok>)
    requires s.len() >= 2,
    ensures #[trigger] s.skip(2) =~= s.drop_first().drop_first(), s.drop_first()[0] == s[1],
{ }
pub open spec fn stdin_seen(seen: Seq<InputPath>) -> bool { exists|i: int| 0 <= i < seen.len() && (#[trigger] seen[i]) is Stdin }
#[verifier::external_body]
proof fn axiom_input_paths_lawful<I: Iterator<Item = InputPath>>(p: &InputPaths<I>)
    ensures p.obeys_prophetic_iter_laws(),
{ }

impl fmt::Display for LexoptError { #[verifier::external_body] fn fmt(&self, f: &mut fmt::Formatter<'_>) -> fmt::Result { unimplemented!() } }
impl fmt::Display for xt::Format { #[verifier::external_body] fn fmt(&self, f: &mut fmt::Formatter<'_>) -> fmt::Result { unimplemented!() } }
impl fmt::Display for xt::Error { #[verifier::external_body] fn fmt(&self, f: &mut fmt::Formatter<'_>) -> fmt::Result { unimplemented!() } }
impl fmt::Display for InputPath { #[verifier::external_body] fn fmt(&self, f: &mut fmt::Formatter<'_>) -> fmt::Result { unimplemented!() } }
#[verifier::external]
impl<I> Iterator for InputPaths<I>
where
	I: Iterator<Item = InputPath>,
{
	type Item = InputPath;
	fn next(&mut self) -> Option<Self::Item> { unimplemented!() }
}
#[verifier::external_body]
fn write_short_help<W>(mut w: W)
where
	W: Write,
{ unimplemented!() }
'''

# C13 / C14: parse_args returns Err exactly for the command lines the model calls invalid, and for a valid one the Cli holds
# the -f value, the -t value (JSON when absent) and one path per non-option token
PARSE_SPEC = '''ensures ({
        let m = parse_model(lexopt::env_args(), None, None, 0);
        &&& (r matches Ok(cli) ==> (m matches Outcome::Valid(f, t, n) && cli.from == f && cli.to == (match t { Some(x) => x, None => Format::Json }) && cli.input_pathnames@.len() == n))
        &&& (r is Err ==> m == Outcome::Invalid)
    }),'''
PARSE_INV = '''invariant parse_model(lexopt::env_args(), None, None, 0) == parse_model(lexopt::rest(&parser), from, to, input_pathnames@.len() as nat),'''
PARSE_WITH = '''parse_with(|s: &str| -> (r: Result<Format, &'static str>) ensures (match r { Ok(f) => name_format(s) == Some(f), Err(_) => name_format(s) is None }) { try_parse_format(s) })'''
OPEN_SPEC = '''ensures self is Stdin ==> (r matches Ok(i) ==> i is Stdin),
        self is File ==> (r matches Ok(i) ==> !(i is Stdin)),'''
EXT_SPEC = 'ensures r == ext_format_spec(self),'
UNSAFE_SPEC = 'ensures r == (format is Msgpack),'
NAMES_SPEC = '''ensures
        (s == "j" || s == "json") <==> r matches Ok(Format::Json),
        (s == "m" || s == "msgpack") <==> r matches Ok(Format::Msgpack),
        (s == "t" || s == "toml") <==> r matches Ok(Format::Toml),
        (s == "y" || s == "yaml") <==> r matches Ok(Format::Yaml),
        match r { Ok(f) => name_format(s) == Some(f), Err(_) => name_format(s) is None },'''

LOOP_INV = '''invariant verus_iter.obeys_prophetic_iter_laws(),
            parse_model(lexopt::env_args(), None, None, 0) is Valid,   // C13: every exit from inside the loop belongs to a VALID command line (status 1, never 2)
            !tr_dirty(&translator),
            tr_to(&translator) == args.to,
            tr_calls(&translator).len() == seen.len(),
            forall|i: int| 0 <= i < seen.len() ==> (#[trigger] tr_calls(&translator)[i]).from == resolve(args.from, &seen[i]) && tr_calls(&translator)[i].ok,
            stdin_used <==> stdin_seen(seen),
            forall|i: int, j: int| 0 <= i < j < seen.len() ==> !((#[trigger] seen[i]) is Stdin && (#[trigger] seen[j]) is Stdin),'''

FOR_TO = (r'let ghost mut seen: Seq<InputPath> = Seq::empty(); proof { axiom_input_paths_lawful(&\2); } '
          r'let mut verus_iter = \2; loop ' + LOOP_INV.replace('\\', '\\\\') +
          r' { broadcast use group_fmt_xt; let \1 = match verus_iter.next() { None => break, Some(verus_item) => verus_item }; '
          r'let ghost seen0 = seen; proof { seen = seen.push(\1); assert(seen.drop_last() =~= seen0); }')

AFTER_STDIN_CHECK = '''proof {
    // a second stdin is refused above; here the new path is the only stdin among the inputs seen
    assert(stdin_seen(seen) <==> (stdin_seen(seen0) || path is Stdin)) by {
        if stdin_seen(seen0) { let i = choose|i: int| 0 <= i < seen0.len() && (#[trigger] seen0[i]) is Stdin; assert(seen[i] == seen0[i]); }
        if path is Stdin { assert(seen[seen.len() - 1] is Stdin); }
        if stdin_seen(seen) { let i = choose|i: int| 0 <= i < seen.len() && (#[trigger] seen[i]) is Stdin; if i < seen0.len() { assert(seen0[i] == seen[i]); } }
    }
}'''

ITEMS = [
    dict(src='repo:src/bail.rs', kind='macro', name='xt_bail'),
    dict(src='repo:src/bail.rs', kind='macro', name='xt_bail_path'),
    dict(raw=STD),
    dict(src='repo:src/lib.rs', kind='enum', name='Format', keep_attrs=False, wrap=('    #[derive(Copy, Clone)]', '')),
    dict(raw=XT_REST),
    dict(src='repo:src/main.rs', kind='struct', name='Cli'),
    dict(src='repo:src/main.rs', kind='enum', name='InputPath', wrap=('pub', '')),   # `pub` added in the generated file only: the contract of the (public) trait method `from` names its constructors
    dict(src='repo:src/main.rs', kind='enum', name='Input'),
    dict(src='repo:src/main.rs', kind='enum', name='InputPaths'),
    dict(raw='impl Cli {'),
    dict(src='repo:src/main.rs', kind='fn', name='parse_args', within_impl=r'\bimpl\s+Cli\b',
         contract=dict(ret='r', spec=PARSE_SPEC, attrs=['#[verifier::exec_allows_no_decreases_clause]', '#[verifier::loop_isolation(false)]'],
                       prologue='broadcast use group_fmt_xt, lemma_tok_skip2;',
                       loops=[dict(ordinal=0, kind='while', clauses=PARSE_INV)],
                       rewrites=[dict(find=r'parse_with\s*\(\s*try_parse_format\s*\)', to=PARSE_WITH),
                                 # (inside verus! the elided lifetime of a local const is not inferred)
                                 dict(find=r'const\s+VERSION\s*:\s*&\s*str', to="exec const VERSION: &'static str")])),
    dict(raw='}\nimpl vstd::std_specs::convert::FromSpecImpl<PathBuf> for InputPath {\n    open spec fn obeys_from_spec() -> bool { false }\n    open spec fn from_spec(p: PathBuf) -> InputPath { InputPath::Stdin }\n}\nimpl From<PathBuf> for InputPath {'),
    # C14: an argument is standard input exactly when it IS the path `-` (std's path equality), every other argument is that file
    dict(src='repo:src/main.rs', kind='fn', name='from', within_impl=r'\bimpl\s+From\s*<PathBuf>\s+for\s+InputPath\b',
         contract=dict(ret='r', spec='ensures (r is Stdin) == path_eq(pb_path(&path), path_of::<str>("-")), r matches InputPath::File(p) ==> p == path,')),
    dict(raw='}\nimpl InputPath {'),
    dict(src='repo:src/main.rs', kind='fn', name='open', within_impl=r'\bimpl\s+InputPath\b', mode='external_body', contract=dict(ret='r', spec=OPEN_SPEC)),
    dict(src='repo:src/main.rs', kind='fn', name='extension_format', within_impl=r'\bimpl\s+InputPath\b', mode='external_body', contract=dict(ret='r', spec=EXT_SPEC)),
    dict(raw='}\nimpl<I> InputPaths<I>\nwhere\n\tI: Iterator<Item = InputPath>,\n{'),
    dict(src='repo:src/main.rs', kind='fn', name='one', within_impl=r'\bimpl\s*<I>\s+InputPaths\s*<I>', contract=dict()),
    dict(src='repo:src/main.rs', kind='fn', name='many', within_impl=r'\bimpl\s*<I>\s+InputPaths\s*<I>', contract=dict()),
    dict(raw='}'),
    # usage_name: the program name for the help texts is obtained without a call that can panic on a non-Unicode argv[0]
    dict(src='repo:src/main.rs', kind='fn', name='usage_name', contract=dict()),
    dict(src='repo:src/main.rs', kind='fn', name='format_is_unsafe_for_terminal', contract=dict(ret='r', spec=UNSAFE_SPEC)),
    # the format-name table of -f / -t, for EVERY string (the Kani harness format_names_table covers strings <= 3 B + the long names)
    dict(src='repo:src/main.rs', kind='fn', name='try_parse_format',
         contract=dict(ret='r', spec=NAMES_SPEC,
                       prologue='proof { reveal_strlit("j"); reveal_strlit("json"); reveal_strlit("m"); reveal_strlit("msgpack"); reveal_strlit("t"); reveal_strlit("toml"); reveal_strlit("y"); reveal_strlit("yaml"); }')),
    dict(src='repo:src/main.rs', kind='fn', name='main',
         contract=dict(attrs=['#[verifier::exec_allows_no_decreases_clause]'],   # termination = finiteness of the argument list; not proved
                       prologue='broadcast use group_fmt_xt;',
                       rewrites=[dict(find=r'for\s+(\w+)\s+in\s+(\w+)\s*\{', to=FOR_TO, expand=True),
                                 dict(find=r'\|\|\s*path\s*\.\s*extension_format\s*\(\s*\)',
                                      to='|| -> (r: Option<Format>) ensures r == ext_format_spec(&path) { path.extension_format() }')],
                       inserts=[dict(before=[r'let\s+from\s*=', r'let\s+\w+\s*=\s*match\s+input\b', r'match\s+input\s*\{'], text=AFTER_STDIN_CHECK)])),
]

CONSTS = []
LEMMAS = ''
FOOTER = '''
} // verus!
'''
