"""U-MP / U-MP-L: Verus contracts for the MessagePack size calculator (src/msgpack.rs) and the
rmp crate's Marker::from_u8, plus the lemmas that turn them into C18 / C02 / C03 / C04 statements.

Only specification text lives here.  The executable function bodies are extracted verbatim from
/repo (and from the rmp version in Cargo.lock) by vlib/verus_unit.py on every run.
"""

HEADER = r'''// GENERATED on every run by /verif/bin/vcheck -- do not edit.  Executable items below are extracted
// verbatim from the working tree; ghost insertions are wrapped in /*@G<*/ ... /*@G>*/ markers.
use vstd::prelude::*;
use vstd::std_specs::convert::IntoSpec;
verus! {
global size_of usize == 8;

// ---------- specification (written from the MessagePack format spec) ----------
pub open spec fn be16(s: Seq<u8>) -> nat { (s[1] as nat) * 256 + (s[2] as nat) }
pub open spec fn be32(s: Seq<u8>) -> nat { (s[1] as nat) * 16777216 + (s[2] as nat) * 65536 + (s[3] as nat) * 256 + (s[4] as nat) }

pub open spec fn tail(s: Seq<u8>, k: nat) -> Seq<u8> { s.subrange(k as int, s.len() as int) }

// Size of the first value of `s`, if `s` starts with a complete well-formed value whose
// nesting depth (scalar = 1, collection = 1 + deepest child) is at most `d`.
pub open spec fn mp_value(s: Seq<u8>, d: nat) -> Option<nat>
    decreases d, 1nat, 0nat
{
    if d == 0 || s.len() == 0 { None } else {
        let b = s[0];
        let body: Option<nat> =
            if b <= 0x7f || b >= 0xe0 || b == 0xc0 || b == 0xc2 || b == 0xc3 { Some(1nat) }
            else if b == 0xc1 { None }
            else if b == 0xcc || b == 0xd0 { Some(2nat) }
            else if b == 0xcd || b == 0xd1 { Some(3nat) }
            else if b == 0xce || b == 0xd2 || b == 0xca { Some(5nat) }
            else if b == 0xcf || b == 0xd3 || b == 0xcb { Some(9nat) }
            else if b == 0xd4 { Some(3nat) } else if b == 0xd5 { Some(4nat) } else if b == 0xd6 { Some(6nat) }
            else if b == 0xd7 { Some(10nat) } else if b == 0xd8 { Some(18nat) }
            else if b == 0xc7 { if s.len() >= 2 { Some(3 + s[1] as nat) } else { None } }
            else if b == 0xc8 { if s.len() >= 3 { Some(4 + be16(s)) } else { None } }
            else if b == 0xc9 { if s.len() >= 5 { Some(6 + be32(s)) } else { None } }
            else if 0xa0 <= b <= 0xbf { Some(1 + (b - 0xa0) as nat) }
            else if b == 0xd9 || b == 0xc4 { if s.len() >= 2 { Some(2 + s[1] as nat) } else { None } }
            else if b == 0xda || b == 0xc5 { if s.len() >= 3 { Some(3 + be16(s)) } else { None } }
            else if b == 0xdb || b == 0xc6 { if s.len() >= 5 { Some(5 + be32(s)) } else { None } }
            else if 0x90 <= b <= 0x9f { mp_add(1, mp_items(tail(s, 1), (b - 0x90) as nat, d)) }
            else if 0x80 <= b <= 0x8f { mp_add(1, mp_items(tail(s, 1), 2 * ((b - 0x80) as nat), d)) }
            else if b == 0xdc { if s.len() >= 3 { mp_add(3, mp_items(tail(s, 3), be16(s), d)) } else { None } }
            else if b == 0xde { if s.len() >= 3 { mp_add(3, mp_items(tail(s, 3), 2 * be16(s), d)) } else { None } }
            else if b == 0xdd { if s.len() >= 5 { mp_add(5, mp_items(tail(s, 5), be32(s), d)) } else { None } }
            else { /* 0xdf */ if s.len() >= 5 { mp_add(5, mp_items(tail(s, 5), 2 * be32(s), d)) } else { None } };
        match body { Some(n) => if n <= s.len() { Some(n) } else { None }, None => None }
    }
}

pub open spec fn mp_add(k: nat, r: Option<nat>) -> Option<nat> { match r { Some(n) => Some(k + n), None => None } }

// Total size of `count` consecutive values at the start of `s`, each of depth <= d-1.
pub open spec fn mp_items(s: Seq<u8>, count: nat, d: nat) -> Option<nat>
    decreases d, 0nat, count
{
    if count == 0 { Some(0nat) }
    else if d == 0 { None }
    else {
        match mp_value(s, (d - 1) as nat) {
            None => None,
            Some(n) => mp_add(n, mp_items(tail(s, n), (count - 1) as nat, d)),
        }
    }
}

#[verifier::external_body]
pub broadcast proof fn axiom_u32_into_u32(x: u32)
    ensures #[trigger] IntoSpec::<u32>::into_spec(x) == x,
{ }
#[verifier::external_body]
pub proof fn axiom_u32_obeys()
    ensures <u32 as IntoSpec<u32>>::obeys_into_spec(),
{ }

pub broadcast proof fn lemma_mask_0f(n: u8)
    ensures 0x80 <= n <= 0x8f ==> #[trigger] (n & 0x0f) == n - 0x80,
            0x90 <= n <= 0x9f ==> (n & 0x0f) == n - 0x90,
{ assert(0x80 <= n <= 0x8f ==> (n & 0x0f) == n - 0x80) by (bit_vector);
  assert(0x90 <= n <= 0x9f ==> (n & 0x0f) == n - 0x90) by (bit_vector); }
pub broadcast proof fn lemma_mask_1f(n: u8)
    ensures 0xa0 <= n <= 0xbf ==> #[trigger] (n & 0x1f) == n - 0xa0,
{ assert(0xa0 <= n <= 0xbf ==> (n & 0x1f) == n - 0xa0) by (bit_vector); }
'''

FROM_U8_SPEC = r'''
        ensures
            n <= 0x7f ==> r == Marker::FixPos(n),
            n >= 0xe0 ==> r is FixNeg,
            0x80 <= n <= 0x8f ==> r == Marker::FixMap(n & 0x0f),
            0x90 <= n <= 0x9f ==> r == Marker::FixArray(n & 0x0f),
            0xa0 <= n <= 0xbf ==> r == Marker::FixStr(n & 0x1f),
            n == 0xc0 ==> r == Marker::Null, n == 0xc1 ==> r == Marker::Reserved,
            n == 0xc2 ==> r == Marker::False, n == 0xc3 ==> r == Marker::True,
            n == 0xc4 ==> r == Marker::Bin8, n == 0xc5 ==> r == Marker::Bin16, n == 0xc6 ==> r == Marker::Bin32,
            n == 0xc7 ==> r == Marker::Ext8, n == 0xc8 ==> r == Marker::Ext16, n == 0xc9 ==> r == Marker::Ext32,
            n == 0xca ==> r == Marker::F32, n == 0xcb ==> r == Marker::F64,
            n == 0xcc ==> r == Marker::U8, n == 0xcd ==> r == Marker::U16, n == 0xce ==> r == Marker::U32, n == 0xcf ==> r == Marker::U64,
            n == 0xd0 ==> r == Marker::I8, n == 0xd1 ==> r == Marker::I16, n == 0xd2 ==> r == Marker::I32, n == 0xd3 ==> r == Marker::I64,
            n == 0xd4 ==> r == Marker::FixExt1, n == 0xd5 ==> r == Marker::FixExt2, n == 0xd6 ==> r == Marker::FixExt4,
            n == 0xd7 ==> r == Marker::FixExt8, n == 0xd8 ==> r == Marker::FixExt16,
            n == 0xd9 ==> r == Marker::Str8, n == 0xda ==> r == Marker::Str16, n == 0xdb ==> r == Marker::Str32,
            n == 0xdc ==> r == Marker::Array16, n == 0xdd ==> r == Marker::Array32,
            n == 0xde ==> r == Marker::Map16, n == 0xdf ==> r == Marker::Map32,
'''

NVS_SPEC = r'''
    ensures
        depth_limit > 0 && input.len() == 0 ==> r == Ok::<usize, ReadSizeError>(0),
        depth_limit == 0 ==> r == Err::<usize, ReadSizeError>(ReadSizeError::DepthLimitExceeded),
        input.len() > 0 ==> (r is Ok <==> mp_value(input@, depth_limit as nat) is Some),
        input.len() > 0 ==> (r matches Ok(n) ==> mp_value(input@, depth_limit as nat) == Some(n as nat) && 1 <= n <= input.len()),
    decreases depth_limit, 1nat, 0nat
'''

TSS_SPEC = r'''
    requires depth_limit >= 1, N::obeys_into_spec(),
    ensures
        r is Ok <==> mp_items(input@, count.into_spec() as nat, depth_limit as nat) is Some,
        r matches Ok(n) ==> mp_items(input@, count.into_spec() as nat, depth_limit as nat) == Some(n as nat) && n <= input.len(),
    decreases depth_limit, 0nat, 0nat
'''

TSS_INV = r'''
        invariant
            count == cnt0,
            depth_limit >= 1,
            total <= input.len(),
            seq@ =~= tail(input@, total as nat),
            mp_items(input@, count as nat, depth_limit as nat) == mp_add(total as nat, mp_items(seq@, (count - i) as nat, depth_limit as nat)),
'''

TMS_SPEC = r'''
    requires depth_limit >= 1, N::obeys_into_spec(),
    ensures
        r is Ok <==> mp_items(input@, 2 * (pairs.into_spec() as nat), depth_limit as nat) is Some,
        r matches Ok(n) ==> mp_items(input@, 2 * (pairs.into_spec() as nat), depth_limit as nat) == Some(n as nat) && n <= input.len(),
    decreases depth_limit, 0nat, 1nat
'''

ITEMS = [
    dict(raw='pub mod rmp {\nuse vstd::prelude::*;'),
    dict(src='crate:rmp:src/marker.rs', kind='const', name='FIXSTR_SIZE'),
    dict(src='crate:rmp:src/marker.rs', kind='const', name='FIXARRAY_SIZE'),
    dict(src='crate:rmp:src/marker.rs', kind='const', name='FIXMAP_SIZE'),
    dict(src='crate:rmp:src/marker.rs', kind='enum', name='Marker'),
    dict(src='crate:rmp:src/marker.rs', kind='fn', name='from_u8', within_impl=r'\bimpl\s+Marker\s*\{',
         wrap=('impl Marker {', '}'),
         contract=dict(ret='r', spec=FROM_U8_SPEC)),
    dict(raw='} // mod rmp\nuse rmp::Marker;'),
    dict(src='repo:src/msgpack.rs', kind='enum', name='ReadSizeError'),
    dict(src='repo:src/msgpack.rs', kind='fn', name='next_value_size',
         contract=dict(ret='r', spec=NVS_SPEC,
                       prologue='broadcast use lemma_mask_0f, lemma_mask_1f, axiom_u32_into_u32;\n proof { axiom_u32_obeys(); }')),
    dict(src='repo:src/msgpack.rs', kind='fn', name='total_seq_size',
         contract=dict(ret='r', spec=TSS_SPEC, attrs=['#[verifier::loop_isolation(false)]'],
                       prologue='broadcast use axiom_u32_into_u32;\n let ghost cnt0: u32 = count.into_spec();',
                       loops=[dict(ordinal=0, kind='for', binder='i', clauses=TSS_INV)])),
    dict(src='repo:src/msgpack.rs', kind='fn', name='total_map_size',
         contract=dict(ret='r', spec=TMS_SPEC,
                       prologue='broadcast use axiom_u32_into_u32;\n proof { axiom_u32_obeys(); }\n proof { lemma_items_split(input@, pairs.into_spec() as nat, pairs.into_spec() as nat, depth_limit as nat); }')),
    # Bodies rejected by Verus (fn-item values, slice.get(range).try_into()): signature kept verbatim, body
    # replaced by an assumed contract that the Kani unit U-MP-K proves on the real bodies in the same run.
    dict(src='repo:src/msgpack.rs', kind='fn', name='try_read_length_8', mode='external_body',
         contract=dict(ret='r', spec='''ensures input.len() >= 2 ==> r == Ok::<u8,ReadSizeError>(input[1]),
            input.len() < 2 ==> r == Err::<u8,ReadSizeError>(ReadSizeError::Truncated),''')),
    dict(src='repo:src/msgpack.rs', kind='fn', name='try_read_length_16', mode='external_body',
         contract=dict(ret='r', spec='''ensures input.len() >= 3 ==> r == Ok::<u16,ReadSizeError>((input[1] as u16 * 256 + input[2] as u16) as u16),
            input.len() < 3 ==> r == Err::<u16,ReadSizeError>(ReadSizeError::Truncated),''')),
    dict(src='repo:src/msgpack.rs', kind='fn', name='try_read_length_32', mode='external_body',
         contract=dict(ret='r', spec='''ensures input.len() >= 5 ==> r == Ok::<u32,ReadSizeError>((input[1] as u32 * 16777216 + input[2] as u32 * 65536 + input[3] as u32 * 256 + input[4] as u32) as u32),
            input.len() < 5 ==> r == Err::<u32,ReadSizeError>(ReadSizeError::Truncated),''')),
]

# constants extracted from the source each run and referenced by the lemmas
CONSTS = [dict(src='repo:src/msgpack.rs', name='DEPTH_LIMIT')]

LEMMAS = r'''
// mp_value result is bounded by the input and positive
pub proof fn lemma_value_bounds(s: Seq<u8>, d: nat)
    ensures mp_value(s, d) matches Some(n) ==> 1 <= n <= s.len(),
{ }

// consecutive-items split: items(a+b) = items(a) then items(b) on the rest
pub proof fn lemma_items_split(s: Seq<u8>, a: nat, b: nat, d: nat)
    ensures
        mp_items(s, a, d) is None ==> mp_items(s, a + b, d) is None,
        mp_items(s, a, d) matches Some(n) ==> n <= s.len() && mp_items(s, a + b, d) == mp_add(n, mp_items(tail(s, n), b, d)),
    decreases a
{
    if a == 0 {
        assert(tail(s, 0) =~= s);
        match mp_items(s, b, d) { Some(m) => {}, None => {} }
    } else if d == 0 {
    } else {
        match mp_value(s, (d - 1) as nat) {
            None => {},
            Some(n) => {
                lemma_value_bounds(s, (d - 1) as nat);
                lemma_items_split(tail(s, n), (a - 1) as nat, b, d);
                match mp_items(tail(s, n), (a - 1) as nat, d) {
                    None => {},
                    Some(m) => {
                        assert(tail(tail(s, n), m) =~= tail(s, n + m));
                    }
                }
            }
        }
    }
}

// ---- depth lemmas (C18) ----
pub proof fn lemma_value_mono(s: Seq<u8>, d: nat, e: nat)
    requires d <= e, mp_value(s, d) is Some,
    ensures mp_value(s, e) == mp_value(s, d),
    decreases d, 1nat, 0nat
{
    if d == 0 || s.len() == 0 { } else {
        let b = s[0];
        if 0x90 <= b <= 0x9f { lemma_items_mono(tail(s, 1), (b - 0x90) as nat, d, e); }
        else if 0x80 <= b <= 0x8f { lemma_items_mono(tail(s, 1), 2 * ((b - 0x80) as nat), d, e); }
        else if b == 0xdc && s.len() >= 3 { lemma_items_mono(tail(s, 3), be16(s), d, e); }
        else if b == 0xde && s.len() >= 3 { lemma_items_mono(tail(s, 3), 2 * be16(s), d, e); }
        else if b == 0xdd && s.len() >= 5 { lemma_items_mono(tail(s, 5), be32(s), d, e); }
        else if b == 0xdf && s.len() >= 5 { lemma_items_mono(tail(s, 5), 2 * be32(s), d, e); }
    }
}
pub proof fn lemma_items_mono(s: Seq<u8>, count: nat, d: nat, e: nat)
    requires d <= e, mp_items(s, count, d) is Some,
    ensures mp_items(s, count, e) == mp_items(s, count, d),
    decreases d, 0nat, count
{
    if count == 0 { } else if d == 0 { } else {
        lemma_value_mono(s, (d - 1) as nat, (e - 1) as nat);
        let n = mp_value(s, (d - 1) as nat).unwrap();
        lemma_items_mono(tail(s, n), (count - 1) as nat, d, e);
    }
}

// k one-element arrays (0x91) around nil (0xc0)
pub open spec fn nest_arr(k: nat) -> Seq<u8> decreases k { if k == 0 { seq![0xc0u8] } else { seq![0x91u8] + nest_arr((k - 1) as nat) } }

pub proof fn lemma_nest_arr(k: nat, d: nat)
    ensures nest_arr(k).len() == k + 1,
            mp_value(nest_arr(k), d) is Some <==> k + 1 <= d,
            mp_value(nest_arr(k), d) is Some ==> mp_value(nest_arr(k), d) == Some(k + 1),
    decreases k
{
    if k == 0 {
        assert(nest_arr(0)[0] == 0xc0u8);
    } else {
        let s = nest_arr(k);
        let inner = nest_arr((k - 1) as nat);
        lemma_nest_arr((k - 1) as nat, (d - 1) as nat);
        if d >= 1 { lemma_nest_arr((k - 1) as nat, (d - 2) as nat); }
        assert(s[0] == 0x91u8);
        assert(tail(s, 1) =~= inner);
        if d > 0 {
            // one item at depth d
            assert(mp_items(inner, 1, d) == match mp_value(inner, (d - 1) as nat) { None => None::<nat>, Some(n) => mp_add(n, mp_items(tail(inner, n), 0, d)) });
        }
    }
}
pub proof fn theorem_depth_limit_1024()
    ensures mp_value(nest_arr(1023), 1024) is Some, mp_value(nest_arr(1024), 1024) is None,
{ lemma_nest_arr(1023, 1024); lemma_nest_arr(1024, 1024); }


// ---- C18: every nesting shape (arrays, maps nested through the value, maps nested through the key) ----
pub enum Lvl { Arr, MapVal, MapKey }

// k = sh.len() one-element collections of the given kinds around nil (0xc0); the other half of a map
// entry is nil too.
pub open spec fn nest(sh: Seq<Lvl>) -> Seq<u8>
    decreases sh.len()
{
    if sh.len() == 0 { seq![0xc0u8] } else {
        let inner = nest(sh.drop_first());
        match sh[0] {
            Lvl::Arr => seq![0x91u8] + inner,
            Lvl::MapVal => seq![0x81u8, 0xc0u8] + inner,
            Lvl::MapKey => seq![0x81u8] + inner + seq![0xc0u8],
        }
    }
}

pub proof fn lemma_nil(s: Seq<u8>, d: nat)
    requires s.len() >= 1, s[0] == 0xc0u8, d >= 1,
    ensures mp_value(s, d) == Some(1nat),
{ }

pub proof fn lemma_items_one(s: Seq<u8>, d: nat)
    requires d >= 1,
    ensures mp_items(s, 1, d) == mp_value(s, (d - 1) as nat),
{
    match mp_value(s, (d - 1) as nat) {
        None => {},
        Some(n) => { assert(mp_items(tail(s, n), 0, d) == Some(0nat)); }
    }
}

pub proof fn lemma_items_two(s: Seq<u8>, d: nat)
    requires d >= 1,
    ensures mp_items(s, 2, d) == match mp_value(s, (d - 1) as nat) {
        None => None::<nat>,
        Some(n) => mp_add(n, mp_value(tail(s, n), (d - 1) as nat)),
    },
{
    match mp_value(s, (d - 1) as nat) {
        None => {},
        Some(n) => { lemma_items_one(tail(s, n), d); }
    }
}

// value followed by arbitrary bytes: mp_value only looks at the value's own bytes
pub proof fn lemma_value_prefix(s: Seq<u8>, t: Seq<u8>, d: nat)
    requires mp_value(s, d) is Some,
    ensures mp_value(s + t, d) == mp_value(s, d),
    decreases d, 1nat, 0nat
{
    let st = s + t;
    if d == 0 || s.len() == 0 { } else {
        let b = s[0];
        assert(st[0] == b);
        assert(s.len() >= 2 ==> st[1] == s[1]);
        assert(s.len() >= 3 ==> st[2] == s[2]);
        assert(s.len() >= 5 ==> st[3] == s[3] && st[4] == s[4]);
        if 0x90 <= b <= 0x9f { assert(tail(st, 1) =~= tail(s, 1) + t); lemma_items_prefix(tail(s, 1), t, (b - 0x90) as nat, d); }
        else if 0x80 <= b <= 0x8f { assert(tail(st, 1) =~= tail(s, 1) + t); lemma_items_prefix(tail(s, 1), t, 2 * ((b - 0x80) as nat), d); }
        else if b == 0xdc && s.len() >= 3 { assert(tail(st, 3) =~= tail(s, 3) + t); lemma_items_prefix(tail(s, 3), t, be16(s), d); }
        else if b == 0xde && s.len() >= 3 { assert(tail(st, 3) =~= tail(s, 3) + t); lemma_items_prefix(tail(s, 3), t, 2 * be16(s), d); }
        else if b == 0xdd && s.len() >= 5 { assert(tail(st, 5) =~= tail(s, 5) + t); lemma_items_prefix(tail(s, 5), t, be32(s), d); }
        else if b == 0xdf && s.len() >= 5 { assert(tail(st, 5) =~= tail(s, 5) + t); lemma_items_prefix(tail(s, 5), t, 2 * be32(s), d); }
    }
}
pub proof fn lemma_items_prefix(s: Seq<u8>, t: Seq<u8>, count: nat, d: nat)
    requires mp_items(s, count, d) is Some,
    ensures mp_items(s + t, count, d) == mp_items(s, count, d),
    decreases d, 0nat, count
{
    if count == 0 { } else if d == 0 { } else {
        lemma_value_prefix(s, t, (d - 1) as nat);
        lemma_value_bounds(s, (d - 1) as nat);
        let n = mp_value(s, (d - 1) as nat).unwrap();
        assert(tail(s + t, n) =~= tail(s, n) + t);
        lemma_items_prefix(tail(s, n), t, (count - 1) as nat, d);
    }
}
// and conversely a value that fails on s+t for a reason other than truncation... (not needed)

pub proof fn lemma_nest(sh: Seq<Lvl>, d: nat)
    ensures
        nest(sh).len() >= 1,
        mp_value(nest(sh), d) is Some <==> sh.len() + 1 <= d,
        mp_value(nest(sh), d) is Some ==> mp_value(nest(sh), d) == Some(nest(sh).len()),
    decreases sh.len()
{
    if sh.len() == 0 {
        assert(nest(sh)[0] == 0xc0u8);
    } else {
        let s = nest(sh);
        let rest = sh.drop_first();
        let inner = nest(rest);
        lemma_nest(rest, (d - 1) as nat);
        if d >= 1 {
            match sh[0] {
                Lvl::Arr => {
                    assert(s[0] == 0x91u8);
                    assert(tail(s, 1) =~= inner);
                    lemma_items_one(inner, d);
                }
                Lvl::MapVal => {
                    assert(s[0] == 0x81u8);
                    let t1 = tail(s, 1);
                    assert(t1 =~= seq![0xc0u8] + inner);
                    lemma_items_two(t1, d);
                    if d >= 2 {
                        lemma_nil(t1, (d - 1) as nat);
                        assert(tail(t1, 1) =~= inner);
                    }
                }
                Lvl::MapKey => {
                    assert(s[0] == 0x81u8);
                    let t1 = tail(s, 1);
                    assert(t1 =~= inner + seq![0xc0u8]);
                    lemma_items_two(t1, d);
                    if mp_value(inner, (d - 1) as nat) is Some {
                        lemma_value_prefix(inner, seq![0xc0u8], (d - 1) as nat);
                        assert(tail(t1, inner.len() as nat) =~= seq![0xc0u8]);
                        lemma_nil(seq![0xc0u8], (d - 1) as nat);
                    } else {
                        lemma_value_no_prefix(inner, seq![0xc0u8], rest, (d - 1) as nat);
                    }
                }
            }
        }
    }
}

// a nest that is too deep for d stays rejected when bytes follow it (needed for the key position)
pub proof fn lemma_value_no_prefix(inner: Seq<u8>, t: Seq<u8>, sh: Seq<Lvl>, d: nat)
    requires inner == nest(sh), sh.len() + 1 > d,
    ensures mp_value(inner + t, d) is None,
    decreases sh.len()
{
    let st = inner + t;
    if d == 0 { } else {
        // sh.len() >= 1 because sh.len() + 1 > d >= 1
        let rest = sh.drop_first();
        let in2 = nest(rest);
        assert(st[0] == inner[0]);
        match sh[0] {
            Lvl::Arr => {
                assert(inner[0] == 0x91u8);
                assert(tail(st, 1) =~= in2 + t);
                lemma_items_one(in2 + t, d);
                lemma_value_no_prefix(in2, t, rest, (d - 1) as nat);
            }
            Lvl::MapVal => {
                assert(inner[0] == 0x81u8);
                let t1 = tail(st, 1);
                assert(t1 =~= seq![0xc0u8] + (in2 + t));
                lemma_items_two(t1, d);
                if d >= 2 {
                    lemma_nil(t1, (d - 1) as nat);
                    assert(tail(t1, 1) =~= in2 + t);
                    lemma_value_no_prefix(in2, t, rest, (d - 1) as nat);
                }
            }
            Lvl::MapKey => {
                assert(inner[0] == 0x81u8);
                let t1 = tail(st, 1);
                assert(t1 =~= in2 + (seq![0xc0u8] + t));
                lemma_items_two(t1, d);
                lemma_value_no_prefix(in2, seq![0xc0u8] + t, rest, (d - 1) as nat);
            }
        }
    }
}

// The statement of C18 for MessagePack, for the limit constant extracted from src/msgpack.rs:
// any shape of DEPTH_LIMIT-1 collections around a scalar is accepted, anything deeper is rejected.
proof fn theorem_depth_limit_all_shapes(sh: Seq<Lvl>)
    ensures
        sh.len() + 1 <= DEPTH_LIMIT ==> mp_value(nest(sh), DEPTH_LIMIT as nat) == Some(nest(sh).len()),
        sh.len() + 1 > DEPTH_LIMIT ==> mp_value(nest(sh), DEPTH_LIMIT as nat) is None,
        DEPTH_LIMIT == 1024,
{ lemma_nest(sh, DEPTH_LIMIT as nat); }

// ASSUMED spec of rmp_serde::Deserializer::deserialize_any's consumption (decode.rs: depth_count! on
// arrays, maps and ext): same layouts as mp_value, but entering a collection or ext needs d >= 2.
pub open spec fn rmp_value(s: Seq<u8>, d: nat) -> Option<nat>
    decreases d, 1nat, 0nat
{
    if d == 0 || s.len() == 0 { None } else {
        let b = s[0];
        let body: Option<nat> =
            if b <= 0x7f || b >= 0xe0 || b == 0xc0 || b == 0xc2 || b == 0xc3 { Some(1nat) }
            else if b == 0xc1 { None }
            else if b == 0xcc || b == 0xd0 { Some(2nat) }
            else if b == 0xcd || b == 0xd1 { Some(3nat) }
            else if b == 0xce || b == 0xd2 || b == 0xca { Some(5nat) }
            else if b == 0xcf || b == 0xd3 || b == 0xcb { Some(9nat) }
            else if b == 0xd4 { if d >= 2 { Some(3nat) } else { None } } else if b == 0xd5 { if d >= 2 { Some(4nat) } else { None } } else if b == 0xd6 { if d >= 2 { Some(6nat) } else { None } }
            else if b == 0xd7 { if d >= 2 { Some(10nat) } else { None } } else if b == 0xd8 { if d >= 2 { Some(18nat) } else { None } }
            else if b == 0xc7 { if s.len() >= 2 && d >= 2 { Some(3 + s[1] as nat) } else { None } }
            else if b == 0xc8 { if s.len() >= 3 && d >= 2 { Some(4 + be16(s)) } else { None } }
            else if b == 0xc9 { if s.len() >= 5 && d >= 2 { Some(6 + be32(s)) } else { None } }
            else if 0xa0 <= b <= 0xbf { Some(1 + (b - 0xa0) as nat) }
            else if b == 0xd9 || b == 0xc4 { if s.len() >= 2 { Some(2 + s[1] as nat) } else { None } }
            else if b == 0xda || b == 0xc5 { if s.len() >= 3 { Some(3 + be16(s)) } else { None } }
            else if b == 0xdb || b == 0xc6 { if s.len() >= 5 { Some(5 + be32(s)) } else { None } }
            else if 0x90 <= b <= 0x9f { if d < 2 { None } else { mp_add(1, rmp_items(tail(s, 1), (b - 0x90) as nat, d)) } }
            else if 0x80 <= b <= 0x8f { if d < 2 { None } else { mp_add(1, rmp_items(tail(s, 1), 2 * ((b - 0x80) as nat), d)) } }
            else if b == 0xdc { if s.len() >= 3 && d >= 2 { mp_add(3, rmp_items(tail(s, 3), be16(s), d)) } else { None } }
            else if b == 0xde { if s.len() >= 3 && d >= 2 { mp_add(3, rmp_items(tail(s, 3), 2 * be16(s), d)) } else { None } }
            else if b == 0xdd { if s.len() >= 5 && d >= 2 { mp_add(5, rmp_items(tail(s, 5), be32(s), d)) } else { None } }
            else { /* 0xdf */ if s.len() >= 5 && d >= 2 { mp_add(5, rmp_items(tail(s, 5), 2 * be32(s), d)) } else { None } };
        match body { Some(n) => if n <= s.len() { Some(n) } else { None }, None => None }
    }
}

pub open spec fn rmp_items(s: Seq<u8>, count: nat, d: nat) -> Option<nat>
    decreases d, 0nat, count
{
    if count == 0 { Some(0nat) }
    else if d == 0 { None }
    else {
        match rmp_value(s, (d - 1) as nat) {
            None => None,
            Some(n) => mp_add(n, rmp_items(tail(s, n), (count - 1) as nat, d)),
        }
    }
}

pub proof fn lemma_rmp_implies_mp_value(s: Seq<u8>, d: nat)
    requires rmp_value(s, d) is Some,
    ensures mp_value(s, d) == rmp_value(s, d),
    decreases d, 1nat, 0nat
{
    if d == 0 || s.len() == 0 { } else {
        let b = s[0];
        if 0x90 <= b <= 0x9f { lemma_rmp_implies_mp_items(tail(s, 1), (b - 0x90) as nat, d); }
        else if 0x80 <= b <= 0x8f { lemma_rmp_implies_mp_items(tail(s, 1), 2 * ((b - 0x80) as nat), d); }
        else if b == 0xdc && s.len() >= 3 { lemma_rmp_implies_mp_items(tail(s, 3), be16(s), d); }
        else if b == 0xde && s.len() >= 3 { lemma_rmp_implies_mp_items(tail(s, 3), 2 * be16(s), d); }
        else if b == 0xdd && s.len() >= 5 { lemma_rmp_implies_mp_items(tail(s, 5), be32(s), d); }
        else if b == 0xdf && s.len() >= 5 { lemma_rmp_implies_mp_items(tail(s, 5), 2 * be32(s), d); }
    }
}
pub proof fn lemma_rmp_implies_mp_items(s: Seq<u8>, count: nat, d: nat)
    requires rmp_items(s, count, d) is Some,
    ensures mp_items(s, count, d) == rmp_items(s, count, d),
    decreases d, 0nat, count
{
    if count == 0 { } else if d == 0 { } else {
        lemma_rmp_implies_mp_value(s, (d - 1) as nat);
        let n = rmp_value(s, (d - 1) as nat).unwrap();
        lemma_rmp_implies_mp_items(tail(s, n), (count - 1) as nat, d);
    }
}
'''

FOOTER = '''
} // verus!
fn main() {}
'''
