"""U-MP-X: Verus contract on the verbatim `msgpack::transcode` (src/msgpack.rs), in the same generated file as the
size calculator of U-MP, so that the loop is checked against the PROVED contract of `next_value_size` (no stub):
for every slice input, of any length, the documents offered to the output are exactly the successive values of the
input -- `rest[..n]` with `n` the size of the first complete value -- in order, without gap or overlap, until the input
is exhausted or a value is malformed (C03, C02); `split_at` never panics and the loop terminates (C04); every
deserializer that is offered, on the slice path AND on the reader path, has had `set_max_depth(DEPTH_LIMIT)` applied (C18).
Reader path (C03): a document is requested only from a buffered reader whose `fill_buf` has just shown remaining input
(precondition-contract on `rmp_serde::Deserializer::new`), and the loop is left only when `fill_buf` has shown that
NOTHING is left (loop `ensures br_at_eof(&r)`) -- no trailing byte is dropped, no document is requested at EOF
(`transcode_from` REQUIRES a deserializer built over at least one remaining byte, on both paths).
`match_input_buffer` / `match_input_reader` (verbatim): the detection parse runs only with the depth limit set (C18, C04).

Stand-ins with ASSUMED contracts (listed in the evidence): `rmp_serde::Deserializer` (constructors record the bytes
they were built over; `set_max_depth` records its argument), the trait `crate::Output` with a ghost log of what was
offered (`transcode_from` appends one record and REQUIRES the depth limit), `input::Handle` -> `Input` conversion,
`crate::Error` / `Result`, `BufReader`, minimal `serde::de` traits.  `Input` is extracted verbatim from src/input.rs.

Extraction rewrites (markers, undone by the token check): (T10) the destructuring assignment
`(next, rest) = rest.split_at(..)` is replaced by `let (a, b) = ..; next = a; rest = b;` (Verus does not support
destructuring assignment).
"""
from . import msgpack_size as M

HEADER = M.HEADER.replace('use vstd::prelude::*;', 'use vstd::prelude::*;\nuse std::borrow::Cow;\nuse std::io::{self, BufRead, BufReader, Read};', 1)

STANDINS = r'''
// ================= stand-ins for what msgpack::transcode calls outside src/msgpack.rs (ASSUMED contracts) =================
#[verifier::external_type_specification] #[verifier::external_body] pub struct ExIoError(std::io::Error);
#[verifier::external_type_specification] #[verifier::external_body] #[verifier::reject_recursive_types(R)] pub struct ExBufReader<R: ?Sized>(std::io::BufReader<R>);
#[verifier::external_trait_specification]
pub trait ExRead {
    type ExternalTraitSpecificationFor: std::io::Read;
    fn read(&mut self, buf: &mut [u8]) -> (r: std::io::Result<usize>);
}
#[verifier::external_trait_specification]
pub trait ExBufRead: std::io::Read {
    type ExternalTraitSpecificationFor: std::io::BufRead;
    fn fill_buf(&mut self) -> (r: std::io::Result<&[u8]>);
    fn consume(&mut self, amt: usize);
}
pub assume_specification<R: std::io::Read> [std::io::BufReader::<R>::new] (r: R) -> std::io::BufReader<R>;
#[verifier::allow(undeclared_external_trait)]
pub assume_specification<R: ?Sized + std::io::Read> [<std::io::BufReader<R> as std::io::BufRead>::fill_buf] (b: &mut std::io::BufReader<R>) -> (r: std::io::Result<&[u8]>)
    // BufRead's documented contract: an empty buffer after fill_buf means the reader has reached EOF, a non-empty one that input remains
    ensures r matches Ok(s) ==> (s@.len() == 0) == br_at_eof(final(b));
// ghost state of a buffered reader: no byte is left (buffer empty and the source at EOF)
pub uninterp spec fn br_at_eof<R: ?Sized>(b: &std::io::BufReader<R>) -> bool;
// whether the reader handed to rmp_serde::Deserializer::new still had input when it was handed over
pub uninterp spec fn rd_has_input<R>(r: &R) -> bool;
#[verifier::external_body]
pub broadcast proof fn axiom_rd_has_input<R: ?Sized>(m: &&mut std::io::BufReader<R>)
    ensures #[trigger] rd_has_input::<&mut std::io::BufReader<R>>(m) == !br_at_eof(&*old(*m)),
{ }
#[verifier::allow(undeclared_external_trait)]
pub assume_specification<R: ?Sized + std::io::Read> [<std::io::BufReader<R> as std::io::BufRead>::consume] (b: &mut std::io::BufReader<R>, amt: usize);

pub mod serde {
    pub mod de {
        use vstd::prelude::*;
        pub trait Error {}
        pub trait Deserializer<'de> { type Error; }
        pub trait Deserialize<'de>: Sized {
            // C18 / C04 (detection): a trial parse may only run on a deserializer that carries the depth limit
            fn deserialize<D: Deserializer<'de>>(d: D) -> (r: Result<Self, D::Error>)
                requires crate::de_depth(&d) == Some(crate::limit_v()),
            ;
        }
        pub struct IgnoredAny;
        impl<'de> Deserialize<'de> for IgnoredAny {
            #[verifier::external_body]
            fn deserialize<D: Deserializer<'de>>(d: D) -> (r: Result<Self, D::Error>) { unimplemented!() }
        }
    }
    pub mod ser { pub trait Serialize {} }
    pub use de::Deserialize;
}
use serde::{de, ser, Deserialize};
// (a public requires clause cannot name the private const; closed: equal to DEPTH_LIMIT inside this module)
pub closed spec fn limit_v() -> usize { DEPTH_LIMIT }
#[verifier::allow(undeclared_external_trait)]
pub assume_specification<T, E, U> [std::result::Result::<T, E>::and::<U>] (a: std::result::Result<T, E>, b: std::result::Result<U, E>) -> (r: std::result::Result<U, E>)
    where T: std::marker::Destruct, E: std::marker::Destruct, U: std::marker::Destruct,
    ensures r == (match a { Ok(_) => b, Err(e) => Err::<U, E>(e) });

// xt's error type: anything converts into it
#[verifier::external_body]
pub struct Error { _e: () }
// (a default parameter keeps the two-parameter `Result<_, ReadSizeError>` of the size calculator resolving to std's Result)
pub type Result<T, E = Error> = std::result::Result<T, E>;
impl From<ReadSizeError> for Error { #[verifier::external_body] fn from(e: ReadSizeError) -> Self { unimplemented!() } }
impl From<std::io::Error> for Error { #[verifier::external_body] fn from(e: std::io::Error) -> Self { unimplemented!() } }

pub mod rmp_serde {
    use vstd::prelude::*;
    pub mod decode { #[verifier::external_body] pub struct Error { _e: () } impl super::super::de::Error for Error {} }
    #[verifier::external_body] pub struct ReadRefReader<'a> { _r: std::marker::PhantomData<&'a [u8]> }
    #[verifier::external_body] #[verifier::reject_recursive_types(R)] pub struct ReadReader<R> { _r: std::marker::PhantomData<R> }
    #[verifier::external_body] #[verifier::reject_recursive_types(R)] pub struct Deserializer<R> { _r: std::marker::PhantomData<R> }
    // ghost views: the bytes a slice deserializer was built over (empty for a reader deserializer), and the depth limit in force
    pub uninterp spec fn rd_src<R>(d: &Deserializer<R>) -> Seq<u8>;
    pub uninterp spec fn rd_depth<R>(d: &Deserializer<R>) -> Option<usize>;
    // whether the deserializer was built over input that had at least one byte left
    pub uninterp spec fn rd_live<R>(d: &Deserializer<R>) -> bool;
    impl<'a> Deserializer<ReadRefReader<'a>> {
        #[verifier::external_body]
        pub fn from_read_ref(rd: &'a [u8]) -> (d: Self)
            ensures rd_src(&d) == rd@, rd_depth(&d) is None, rd_live(&d) == (rd@.len() > 0),
        { unimplemented!() }
    }
    impl<R: std::io::Read> Deserializer<ReadReader<R>> {
        #[verifier::external_body]
        pub fn new(rd: R) -> (d: Self)
            ensures rd_src(&d) == Seq::<u8>::empty(), rd_depth(&d) is None, rd_live(&d) == super::rd_has_input(&rd),
        { unimplemented!() }
    }
    impl<R> Deserializer<R> {
        #[verifier::external_body]
        pub fn set_max_depth(&mut self, depth: usize)
            ensures rd_src(final(self)) == rd_src(old(self)), rd_depth(final(self)) == Some(depth), rd_live(final(self)) == rd_live(old(self)),
        { unimplemented!() }
    }
    impl<'de, 'x, R> super::de::Deserializer<'de> for &'x mut Deserializer<R> { type Error = decode::Error; }
}
use rmp_serde::{rd_src, rd_depth, rd_live};

// what a deserializer handed to the output was built over / which depth limit it carries (generic over the handed-over type)
pub uninterp spec fn de_src<D>(d: &D) -> Seq<u8>;
pub uninterp spec fn de_depth<D>(d: &D) -> Option<usize>;
#[verifier::external_body]
pub broadcast proof fn axiom_de_src<R>(m: &&mut rmp_serde::Deserializer<R>)
    ensures #[trigger] de_src::<&mut rmp_serde::Deserializer<R>>(m) == rd_src(&*old(*m)),
{ }
#[verifier::external_body]
pub broadcast proof fn axiom_de_depth<R>(m: &&mut rmp_serde::Deserializer<R>)
    ensures #[trigger] de_depth::<&mut rmp_serde::Deserializer<R>>(m) == rd_depth(&*old(*m)),
{ }
pub uninterp spec fn de_live<D>(d: &D) -> bool;
#[verifier::external_body]
pub broadcast proof fn axiom_de_live<R>(m: &&mut rmp_serde::Deserializer<R>)
    ensures #[trigger] de_live::<&mut rmp_serde::Deserializer<R>>(m) == rd_live(&*old(*m)),
{ }
pub broadcast group axiom_de_views { axiom_de_src, axiom_de_depth, axiom_de_live }

// ghost log of an output: the byte strings of the documents offered so far
pub uninterp spec fn out_log<O: ?Sized>(o: &O) -> Seq<Seq<u8>>;
// crate::Output (src/lib.rs), with the ghost-log contract; C18: every offered MessagePack deserializer carries DEPTH_LIMIT
trait Output {
    fn transcode_from<'de, D, E>(&mut self, de: D) -> (r: Result<()>)
    where
        D: de::Deserializer<'de, Error = E>,
        E: de::Error + Send + Sync + 'static,
        // C18: the depth limit is set; C03: a document is requested only from input that has at least one byte left
        requires de_depth(&de) == Some(DEPTH_LIMIT), de_live(&de),
        ensures out_log(final(self)) == out_log(old(self)).push(de_src(&de)),
    ;
    fn transcode_value<S>(&mut self, value: S) -> Result<()>
    where
        S: ser::Serialize;
    fn flush(&mut self) -> std::io::Result<()>;
}

pub mod input {
    use vstd::prelude::*;
    use std::borrow::Cow;
    use std::io::Read;
    #[verifier::external_body]
    pub struct Handle<'i> { _h: std::marker::PhantomData<&'i [u8]> }
    // the bytes of a slice handle (None for a reader handle that is not fully buffered)
    pub uninterp spec fn handle_slice<'i>(h: &Handle<'i>) -> Option<Seq<u8>>;
'''

INPUT_TAIL = r'''
    pub uninterp spec fn input_of<'i>(h: Handle<'i>) -> Input<'i>;
    impl<'i> vstd::std_specs::convert::FromSpecImpl<Handle<'i>> for Input<'i> {
        open spec fn obeys_from_spec() -> bool { true }
        open spec fn from_spec(h: Handle<'i>) -> Input<'i> { input_of(h) }
    }
    impl<'i> From<Handle<'i>> for Input<'i> {
        #[verifier::external_body]
        fn from(handle: Handle<'i>) -> (r: Self)
            ensures r == input_of(handle),
        { unimplemented!() }
    }
    // ASSUMED here; PROVED on the verbatim `impl From<Handle> for Input` in U-CAP-V (first clause of its contract): a slice handle becomes Input::Slice of the same bytes
    #[verifier::external_body]
    pub broadcast proof fn axiom_input_of_slice<'i>(h: Handle<'i>)
        ensures handle_slice(&h) matches Some(b) ==> (#[trigger] input_of(h) matches Input::Slice(c) && c@ == b),
    { }
}
use input::Input;

// the documents of a MessagePack byte string: successive complete values of nesting depth <= d, until the bytes run
// out or the next value is malformed / truncated / too deep
pub open spec fn mp_split(s: Seq<u8>, d: nat) -> Seq<Seq<u8>>
    decreases s.len()
{
    if s.len() == 0 { Seq::empty() } else {
        match mp_value(s, d) {
            Some(n) => if 1 <= n <= s.len() { seq![s.subrange(0, n as int)] + mp_split(s.subrange(n as int, s.len() as int), d) } else { Seq::empty() },
            None => Seq::empty(),
        }
    }
}
pub open spec fn mp_all_valid(s: Seq<u8>, d: nat) -> bool
    decreases s.len()
{
    if s.len() == 0 { true } else {
        match mp_value(s, d) {
            Some(n) => 1 <= n <= s.len() && mp_all_valid(s.subrange(n as int, s.len() as int), d),
            None => false,
        }
    }
}
pub proof fn lemma_split_step(s: Seq<u8>, d: nat, n: nat)
    requires s.len() > 0, mp_value(s, d) == Some(n), 1 <= n <= s.len(),
    ensures mp_split(s, d) == seq![s.subrange(0, n as int)] + mp_split(s.subrange(n as int, s.len() as int), d),
{ }
'''

# C03 / C02 / C04 / C18 -- for EVERY slice input:
#   Ok  => every byte belonged to a complete, well-formed value and the output was offered exactly the values of the input, in order;
#   Err => what was offered before the failure is a prefix of those values (nothing out of order, nothing invented).
TRANSCODE_SPEC = '''ensures
        input::handle_slice(&input) matches Some(b) ==> {
            let docs = mp_split(b, DEPTH_LIMIT as nat);
            &&& (r is Ok ==> out_log(&output) == old_log(output) + docs && mp_all_valid(b, DEPTH_LIMIT as nat))
            &&& (r is Err ==> exists|k: int| 0 <= k <= docs.len() && #[trigger] out_log(&output).len() == old_log(output).len() + k)
        },'''

PROLOGUE = '''broadcast use input::axiom_input_of_slice, axiom_de_views, axiom_rd_has_input;
    let ghost log0 = out_log(&output);
    let ghost mut whole: Seq<u8> = Seq::empty();
    let ghost mut is_slice = false;
    let ghost mut made: nat = 0;'''
AFTER_REST = '''proof { whole = rest@; is_slice = true; assert(whole.subrange(0, whole.len() as int) =~= whole); }'''
AFTER_SPLIT = '''proof {
    // `next` is the first value of the old rest, `rest` what follows it
    let old_rest = next@ + rest@;
    assert(next@ =~= old_rest.subrange(0, next@.len() as int));
    assert(rest@ =~= old_rest.subrange(next@.len() as int, old_rest.len() as int));
    assert(rest@ =~= whole.subrange(whole.len() - rest@.len(), whole.len() as int));
}'''
AT_END = '''proof {
    // the slice branch ends with the input exhausted: everything offered is exactly the documents of the input, in order
    if is_slice { assert(out_log(&output) == log0 + mp_split(whole, DEPTH_LIMIT as nat)); assert(mp_all_valid(whole, DEPTH_LIMIT as nat)); }
}'''
LOOP0_INV = '''invariant
            is_slice, rest@.len() <= whole.len(),
            rest@ == whole.subrange(whole.len() - rest@.len(), whole.len() as int),
            out_log(&output) + mp_split(rest@, DEPTH_LIMIT as nat) == log0 + mp_split(whole, DEPTH_LIMIT as nat),
            mp_all_valid(whole, DEPTH_LIMIT as nat) == mp_all_valid(rest@, DEPTH_LIMIT as nat),
        decreases rest@.len(),'''

# C03 (reader path): the loop is left only when fill_buf reported that nothing is left -- no trailing byte is dropped
# C05 / C03 (reader path): every deserializer created so far has been handed to the output before the reader is consulted again
LOOP1_INV = '''invariant out_log(&output).len() == log0.len() + made,
        ensures br_at_eof(&r),'''
AFTER_NEW = '''proof { made = made + 1; }'''

ITEMS = M.ITEMS + [
    dict(raw=STANDINS),
    dict(src='repo:src/input.rs', kind='enum', name='Input', drop_vis=True, wrap=('    pub', '')),
    dict(raw=INPUT_TAIL),
    dict(src='repo:src/msgpack.rs', kind='const', name='DEPTH_LIMIT'),
    # the two detection trials: the parse runs on a deserializer with the depth limit set (precondition of the IgnoredAny stand-in)
    dict(src='repo:src/msgpack.rs', kind='fn', name='match_input_buffer', contract=dict(prologue='broadcast use axiom_de_views;')),
    dict(src='repo:src/msgpack.rs', kind='fn', name='match_input_reader', contract=dict(prologue='broadcast use axiom_de_views;')),
    dict(src='repo:src/msgpack.rs', kind='fn', name='transcode',
         contract=dict(ret='r', spec='ensures true,', attrs=['#[verifier::exec_allows_no_decreases_clause]', '#[verifier::rlimit(80)]'],
                       prologue=PROLOGUE,
                       rewrites=[dict(find=r'\(\s*next\s*,\s*rest\s*\)\s*=\s*([^;]*);', to=r'let (verus_a, verus_b) = \1; next = verus_a; rest = verus_b;', expand=True)],
                       loops=[dict(ordinal=0, kind='while', clauses=LOOP0_INV), dict(ordinal=1, kind='while', clauses=LOOP1_INV)],
                       inserts=[dict(after=r'let\s+mut\s+rest\s*=\s*&\s*\*\s*b\s*;', text=AFTER_REST),
                                dict(after=r'rest\s*\.\s*split_at\s*\([^;]*;', text=AFTER_SPLIT),
                                dict(after=r'rmp_serde\s*::\s*Deserializer\s*::\s*new\s*\([^;]*;', text=AFTER_NEW),
                                dict(before=r'Ok\(\(\)\)\s*\}\s*$', text=AT_END)],
                       inserts_all=[dict(after=r'while\s[^{]*\{', text='broadcast use axiom_de_views, axiom_rd_has_input;', count=2)])),
]

CONSTS = []
# only the lemmas the size calculator's own proof calls (total_map_size uses lemma_items_split); the C18 / C02 lemmas
# are discharged by U-MP itself and are left out to keep this unit's queries small
LEMMAS = M.LEMMAS[:M.LEMMAS.index('// ---- depth lemmas (C18) ----')]
FOOTER = M.FOOTER
