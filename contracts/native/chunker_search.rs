// Native failing-input search for the Verus unit U-CHK-V (NOT a deciding step): the REAL Chunker on the REAL libyaml,
// compiled natively from the same scratch copy, over a small grammar of multi-document YAML streams (1..=3 documents,
// every separator form, optional leading marker / trailing end marker) and source chunkings 1, 3, 7 and whole.  Each
// chunk must parse (serde_yaml) to the same value as the document at the same position of the whole stream, and the
// number of chunks must equal the number of documents.
use super::*;
use serde::Deserialize;

struct Chunked<'a> { data: &'a [u8], off: usize, chunk: usize }
impl<'a> Read for Chunked<'a> {
	fn read(&mut self, buf: &mut [u8]) -> io::Result<usize> {
		let k = buf.len().min(self.chunk).min(self.data.len() - self.off);
		buf[..k].copy_from_slice(&self.data[self.off..self.off + k]);
		self.off += k;
		Ok(k)
	}
}
fn whole_docs(text: &str) -> Result<Vec<serde_yaml::Value>, String> {
	let mut v = Vec::new();
	for de in serde_yaml::Deserializer::from_str(text) { v.push(serde_yaml::Value::deserialize(de).map_err(|e| e.to_string())?); }
	Ok(v)
}
fn check(text: &str) -> Option<String> {
	let want = match whole_docs(text) { Ok(v) => v, Err(_) => return None };   // only streams the slice path accepts
	for chunk in [1usize, 3, 7, 1 << 20] {
		let mut got = Vec::new();
		for doc in Chunker::new(Chunked { data: text.as_bytes(), off: 0, chunk }) {
			let doc = match doc { Ok(d) => d, Err(e) => return Some(format!("stream={:?} source_chunk={chunk}: chunker error after {} documents: {e}", text, got.len())) };
			match whole_docs(doc.content()) {
				Ok(v) if v.len() == 1 => got.push((v[0].clone(), doc.is_collection())),
				Ok(v) => return Some(format!("stream={:?} source_chunk={chunk}: chunk {:?} holds {} documents", text, doc.content(), v.len())),
				Err(e) => return Some(format!("stream={:?} source_chunk={chunk}: chunk {:?} does not parse: {e}", text, doc.content())),
			}
		}
		if got.len() != want.len() { return Some(format!("stream={:?} source_chunk={chunk}: {} chunks for {} documents", text, got.len(), want.len())); }
		for (i, (g, coll)) in got.iter().enumerate() {
			if *g != want[i] { return Some(format!("stream={:?} source_chunk={chunk}: document {i} differs: {:?} vs {:?}", text, g, want[i])); }
			let is_coll = want[i].is_mapping() || want[i].is_sequence();
			if *coll != is_coll { return Some(format!("stream={:?} source_chunk={chunk}: document {i} classified collection={coll}", text)); }
		}
	}
	None
}

#[test]
fn verif_native_search() {
	std::panic::set_hook(Box::new(|_| {}));
	let docs = ["a: 1\n", "- x\n- y\n", "plain\n", "{}\n", "\"q\"\n"];
	let seps = ["---\n", "...\n---\n", "...\n...\n---\n", "--- # comment\n", "...\n%YAML 1.2\n---\n", "...\n# gap\n\n---\n"];
	let leads = ["", "---\n", "# leading comment\n---\n"];
	let trails = ["", "...\n", "...\n# trailing\n"];
	let mut streams: Vec<String> = Vec::new();
	for lead in leads { for trail in trails {
		for a in docs {
			streams.push(format!("{lead}{a}{trail}"));
			for s1 in seps { for b in docs {
				streams.push(format!("{lead}{a}{s1}{b}{trail}"));
				for s2 in [seps[0], seps[2], seps[4]] { for c in [docs[0], docs[2]] { streams.push(format!("{lead}{a}{s1}{b}{s2}{c}{trail}")); } }
			} }
		}
	} }
	// (the empty / comment-only stream is left out: serde_yaml's slice entry point reports one void document there, a known
	// difference between two entry points of that crate, not a property of the chunker)
	for text in &streams {
		let t2 = text.clone();
		let res = std::panic::catch_unwind(move || check(&t2));
		let msg = match res { Ok(None) => None, Ok(Some(m)) => Some(m), Err(_) => Some(format!("stream={:?} -> PANIC", text)) };
		if let Some(m) = msg { println!("FAILING-INPUT: {m}"); panic!("found"); }
	}
	println!("NO-FAILING-INPUT-FOUND ({} streams)", streams.len());
}
