// Native failing-input search for the Verus unit U-CAP-V (NOT a deciding step): after a failed Verus obligation the
// engine runs this bounded search on the REAL CaptureReader / Handle, compiled natively from the same scratch copy, to put
// a concrete failing program into the replay file.  Every program of <= 4 operations over a 4-byte stream, every
// source chunking in {1, 2, 4}, is compared with the abstract model captured == stream[..delivered].
use super::*;

const STREAM: [u8; 4] = [0x61, 0x62, 0x63, 0x64];
use std::sync::atomic::{AtomicUsize, Ordering};
static READS: AtomicUsize = AtomicUsize::new(0);
fn reads() -> usize { READS.load(Ordering::Relaxed) }
struct Src { off: usize, chunk: usize }
impl Read for Src {
	fn read(&mut self, buf: &mut [u8]) -> io::Result<usize> {
		READS.fetch_add(1, Ordering::Relaxed);
		let k = buf.len().min(self.chunk).min(STREAM.len() - self.off);
		buf[..k].copy_from_slice(&STREAM[self.off..self.off + k]);
		self.off += k;
		Ok(k)
	}
}
#[derive(Clone, Copy, Debug)]
enum Op { Read(usize), Rewind, UpTo(usize), ToEnd, Reborrow }
fn ops() -> Vec<Op> {
	let mut v = vec![Op::Rewind, Op::ToEnd, Op::Reborrow];
	for k in 0..4 { v.push(Op::Read(k)); }
	for n in 0..6 { v.push(Op::UpTo(n)); }
	v
}
fn run(program: &[Op], chunk: usize) -> Result<(), String> {
	let mut h = Handle::from_reader(Src { off: 0, chunk });
	let mut pos = 0usize;       // model cursor
	let mut captured = 0usize;  // model: bytes captured so far (== delivered by the source)
	let mut fully = false;      // model: the source reported EOF
	for (i, op) in program.iter().enumerate() {
		let r = match h.borrow_mut() {
			Ref::Slice(b) => {
				if !fully { return Err(format!("op {i}: slice handed out before the source was exhausted")); }
				if b != &STREAM[..captured] { return Err(format!("op {i}: buffered slice {:02x?} != stream[..{captured}]", b)); }
				continue;
			}
			Ref::Reader(r) => r,
		};
		if fully { return Err(format!("op {i}: reader handed out although the source was exhausted")); }
		pos = 0; // every borrow rewinds
		if r.prefix.position() != 0 { return Err(format!("op {i}: borrow did not rewind")); }
		match *op {
			Op::Reborrow => {}
			Op::Rewind => { r.rewind(); pos = 0; }
			Op::Read(k) => {
				let mut buf = [0u8; 4];
				let before = reads();
				match r.read(&mut buf[..k]) {
					Ok(n) => {
						if n > k { return Err(format!("op {i}: read({k}) returned {n}")); }
						if buf[..n] != STREAM[pos..pos + n] { return Err(format!("op {i}: read({k}) at {pos} returned {:02x?}, stream has {:02x?}", &buf[..n], &STREAM[pos..pos + n])); }
						if reads() > before + 1 { return Err(format!("op {i}: read({k}) consulted the source {} times", reads() - before)); }
						let consulted = reads() > before;
						pos += n;
						if pos > captured { captured = pos; }
						if consulted && k > 0 && pos == captured && n < k && captured < STREAM.len() && chunk >= k { return Err(format!("op {i}: short read without reason")); }
						if k == 0 && consulted { return Err(format!("op {i}: an empty read consulted the source")); }
					}
					Err(e) => return Err(format!("op {i}: read failed: {e}")),
				}
			}
			Op::UpTo(n) => {
				if let Err(e) = r.capture_up_to_size(n) { return Err(format!("op {i}: capture_up_to_size({n}) failed: {e}")); }
				let want = captured.max(n.min(STREAM.len()));
				if r.captured().len() > captured.max(n) { return Err(format!("op {i}: capture_up_to_size({n}) captured {} bytes", r.captured().len())); }
				if r.captured().len() < want { return Err(format!("op {i}: capture_up_to_size({n}) captured only {} bytes", r.captured().len())); }
				captured = r.captured().len();
			}
			Op::ToEnd => {
				if let Err(e) = r.capture_to_end() { return Err(format!("op {i}: capture_to_end failed: {e}")); }
				captured = STREAM.len();
			}
		}
		if r.captured() != &STREAM[..r.captured().len()] { return Err(format!("op {i}: capture {:02x?} is not a prefix of the stream", r.captured())); }
		if r.captured().len() < captured { return Err(format!("op {i}: capture lost bytes ({} < {captured})", r.captured().len())); }
		captured = r.captured().len();
		if r.is_source_eof() && captured < STREAM.len() { return Err(format!("op {i}: source_eof set after {captured} of {} bytes", STREAM.len())); }
		fully = r.is_source_eof();
	}
	// taking ownership yields the whole stream
	let mut all = Vec::new();
	match Input::from(h) {
		Input::Slice(b) => all.extend_from_slice(&b),
		Input::Reader(mut r) => { r.read_to_end(&mut all).map_err(|e| format!("final read failed: {e}"))?; }
	}
	if all != STREAM { return Err(format!("after the program the translator sees {:02x?} instead of the stream", all)); }
	Ok(())
}

#[test]
fn verif_native_search() {
	std::panic::set_hook(Box::new(|_| {}));
	let ops = ops();
	for chunk in [1usize, 2, 4] {
		for len in 1..=4usize {
			let total = ops.len().pow(len as u32);
			for code in 0..total {
				let mut program = Vec::with_capacity(len);
				let mut x = code;
				for _ in 0..len { program.push(ops[x % ops.len()]); x /= ops.len(); }
				let p2 = program.clone();
				let res = std::panic::catch_unwind(move || run(&p2, chunk));
				let msg = match res { Ok(Ok(())) => None, Ok(Err(m)) => Some(m), Err(_) => Some(String::from("PANIC")) };
				if let Some(m) = msg { println!("FAILING-INPUT: stream=61626364 source_chunk={chunk} program={:?} -> {m}", program); panic!("found"); }
			}
		}
	}
	println!("NO-FAILING-INPUT-FOUND");
}
