// Native failing-input search for the Verus unit U-ENC-V (NOT a deciding step): the REAL Utf8Encoder / decoders,
// compiled natively from the same scratch copy, are run over every text of <= 4 characters from an alphabet with 1-, 2-,
// 3- and 4-byte characters and the BOM, in UTF-16 / UTF-32 (both byte orders) and directly from a character source, under
// every constant read size 1..=6 and a few mixed schedules, and compared with std's own UTF-8 encoding of the text.
use super::*;

const ALPHA: [char; 6] = ['a', '\u{e9}', '\u{20ac}', '\u{1F600}', '\u{FEFF}', '\u{20BB7}'];
struct Chars { items: Vec<char>, pos: usize, fail_at: Option<usize> }
impl Iterator for Chars {
	type Item = io::Result<char>;
	fn next(&mut self) -> Option<io::Result<char>> {
		if Some(self.pos) == self.fail_at { self.pos += 1; return Some(Err(io::Error::new(io::ErrorKind::ConnectionReset, "SOURCE-FAULT"))); }
		if self.pos >= self.items.len() { return None; }
		self.pos += 1;
		Some(Ok(self.items[self.pos - 1]))
	}
}
fn expected(text: &[char]) -> Vec<u8> {
	let t = if text.first() == Some(&'\u{FEFF}') { &text[1..] } else { text };
	t.iter().collect::<String>().into_bytes()
}
fn drain<R: Read>(mut r: R, sizes: &[usize]) -> Result<Vec<u8>, String> {
	let mut out = Vec::new();
	let mut i = 0;
	for _ in 0..200 {
		let k = sizes[i % sizes.len()]; i += 1;
		let mut buf = [0u8; 8];
		match r.read(&mut buf[..k]) {
			Ok(0) => return Ok(out),
			Ok(n) => { if n > k { return Err(format!("read({k}) returned {n}")); } out.extend_from_slice(&buf[..n]); }
			Err(e) => return Err(format!("ERR:{e}")),
		}
	}
	Err(String::from("no end of stream after 200 reads"))
}
fn schedules() -> Vec<Vec<usize>> {
	let mut v: Vec<Vec<usize>> = (1..=6).map(|k| vec![k]).collect();
	v.push(vec![1, 5]); v.push(vec![4, 1]); v.push(vec![3, 2, 1]); v.push(vec![2, 6]);
	v
}
fn check(text: &[char]) -> Option<String> {
	let want = expected(text);
	for sizes in schedules() {
		// 1. the encoder on a plain character source
		let got = drain(Utf8Encoder::new(Chars { items: text.to_vec(), pos: 0, fail_at: None }), &sizes);
		if got.as_ref() != Ok(&want) { return Some(format!("text={:?} reads={:?} Utf8Encoder -> {:?}, expected {:02x?}", text, sizes, got, want)); }
		// 2. the whole re-encoding stack from UTF-16 / UTF-32 bytes
		let s: String = text.iter().collect();
		let u16be: Vec<u8> = s.encode_utf16().flat_map(|u| u.to_be_bytes()).collect();
		let u16le: Vec<u8> = s.encode_utf16().flat_map(|u| u.to_le_bytes()).collect();
		let u32be: Vec<u8> = text.iter().flat_map(|c| (*c as u32).to_be_bytes()).collect();
		let u32le: Vec<u8> = text.iter().flat_map(|c| (*c as u32).to_le_bytes()).collect();
		for (name, bytes, enc) in [("utf16be", &u16be, Encoding::Utf16Big), ("utf16le", &u16le, Encoding::Utf16Little), ("utf32be", &u32be, Encoding::Utf32Big), ("utf32le", &u32le, Encoding::Utf32Little)] {
			let got = drain(Encoder::new(&bytes[..], enc), &sizes);
			if got.as_ref() != Ok(&want) { return Some(format!("text={:?} encoding={name} bytes={:02x?} reads={:?} -> {:?}, expected {:02x?}", text, bytes, sizes, got, want)); }
		}
		// 3. a source fault at every position must surface as that error
		for k in 0..=text.len() {
			let got = drain(Utf8Encoder::new(Chars { items: text.to_vec(), pos: 0, fail_at: Some(k) }), &sizes);
			match got { Err(m) if m.contains("SOURCE-FAULT") => {}, other => return Some(format!("text={:?} reads={:?} source fault at item {k} -> {:?}", text, sizes, other)) }
		}
	}
	None
}

#[test]
fn verif_native_search() {
	std::panic::set_hook(Box::new(|_| {}));
	for len in 0..=4usize {
		let total = ALPHA.len().pow(len as u32);
		for code in 0..total {
			let mut text = Vec::with_capacity(len);
			let mut x = code;
			for _ in 0..len { text.push(ALPHA[x % ALPHA.len()]); x /= ALPHA.len(); }
			let t2 = text.clone();
			let res = std::panic::catch_unwind(move || check(&t2));
			let msg = match res { Ok(None) => None, Ok(Some(m)) => Some(m), Err(_) => Some(format!("text={:?} -> PANIC", text)) };
			if let Some(m) = msg { println!("FAILING-INPUT: {m}"); panic!("found"); }
		}
	}
	println!("NO-FAILING-INPUT-FOUND");
}
