// Native failing-input search for the Verus unit U-MP (NOT a deciding step: Verus gives no counterexample, so
// after a failed Verus obligation the engine runs this bounded search on the REAL next_value_size, compiled
// natively from the same scratch copy, to put a concrete failing input into the replay file).
use super::*;
include!("../harness/msgpack_execspec.rs");

fn check(input: &[u8], d: usize) -> Option<String> {
	let got = std::panic::catch_unwind(|| next_value_size(input, d));
	let want = x_value(input, d);
	match got {
		Err(_) => Some(format!("FAILING-INPUT: bytes={:02x?} depth_limit={} real=PANIC spec={:?}", input, d, want)),
		Ok(Ok(n)) if want != Some(n) => Some(format!("FAILING-INPUT: bytes={:02x?} depth_limit={} real=Ok({}) spec={:?}", input, d, n, want)),
		Ok(Err(e)) if want.is_some() => Some(format!("FAILING-INPUT: bytes={:02x?} depth_limit={} real=Err({:?}) spec={:?}", input, d, e, want)),
		Ok(Err(e)) if d == 0 && e != ReadSizeError::DepthLimitExceeded => Some(format!("FAILING-INPUT: bytes={:02x?} depth_limit=0 real=Err({:?}) spec=DepthLimitExceeded", input, e)),
		_ => None,
	}
}

#[test]
fn verif_native_search() {
	std::panic::set_hook(Box::new(|_| {}));
	let depths = [0usize, 1, 2, 3, 4];
	// 1. every input of up to 3 bytes
	let mut buf = [0u8; 8];
	for n in 1..=3usize {
		let total = 1u64 << (8 * n);
		for v in 0..total {
			for i in 0..n { buf[i] = (v >> (8 * i)) as u8; }
			for &d in &depths { if let Some(m) = check(&buf[..n], d) { println!("{m}"); panic!("found"); } }
		}
	}
	// 2. every input of up to 6 bytes over the alphabet of structurally interesting bytes
	let alpha: [u8; 20] = [0x00, 0x01, 0x02, 0x7f, 0x80, 0x81, 0x82, 0x90, 0x91, 0x92, 0xa1, 0xc0, 0xc1, 0xcc, 0xd9, 0xdc, 0xdd, 0xde, 0xdf, 0xff];
	for n in 4..=6usize {
		let total = (alpha.len() as u64).pow(n as u32);
		for v in 0..total {
			let mut x = v;
			for i in 0..n { buf[i] = alpha[(x % alpha.len() as u64) as usize]; x /= alpha.len() as u64; }
			for &d in &depths { if let Some(m) = check(&buf[..n], d) { println!("{m}"); panic!("found"); } }
		}
	}
	// 3. nests of k one-entry maps / one-element arrays around nil at limits around k
	for k in 1..=40usize {
		for shape in 0..3u8 {
			let mut v = Vec::new();
			for _ in 0..k { match shape { 0 => v.push(0x91), 1 => { v.push(0x81); v.push(0xc0); } _ => v.push(0x81) } }
			v.push(0xc0);
			if shape == 2 { for _ in 0..k { v.push(0xc0); } }
			for d in k.saturating_sub(1)..=k + 2 { if let Some(m) = check(&v, d) { println!("{m}"); panic!("found"); } }
		}
	}
	println!("NO-FAILING-INPUT-FOUND");
}
