// U-LIB: contract harness for Translator / Dispatcher flush forwarding in src/lib.rs (child module `verif_kani` of the crate root).
use super::*;

struct W { flush_result: u8, flushes: u8, writes: u8 }
impl Write for W {
	fn write(&mut self, buf: &[u8]) -> io::Result<usize> { self.writes += 1; Ok(buf.len()) }
	fn flush(&mut self) -> io::Result<()> {
		self.flushes += 1;
		match self.flush_result { 0 => Ok(()), 1 => Err(io::ErrorKind::StorageFull.into()), 2 => Err(io::ErrorKind::BrokenPipe.into()), _ => Err(io::ErrorKind::Other.into()) }
	}
}

/// Translator::flush returns exactly the writer's flush result, calling it once and writing nothing,
/// for all four output formats.
#[kani::proof]
fn translator_flush_forwards_to_writer() {
	let k: u8 = kani::any(); kani::assume(k < 4);
	let f: u8 = kani::any(); kani::assume(f < 4);
	let to = match f { 0 => Format::Json, 1 => Format::Msgpack, 2 => Format::Toml, _ => Format::Yaml };
	let mut w = W { flush_result: k, flushes: 0, writes: 0 };
	{
		let mut t = Translator::new(&mut w, to);
		let r = t.flush();
		match &r {
			Ok(()) => assert!(k == 0),
			Err(e) => { assert!(k != 0); assert!(e.kind() == match k { 1 => io::ErrorKind::StorageFull, 2 => io::ErrorKind::BrokenPipe, _ => io::ErrorKind::Other }); }
		}
		std::mem::forget(r);
	}
	assert!(w.flushes == 1 && w.writes == 0);
	kani::cover!(f == 2 && k == 1, "TOML output forwards a full-device error");
	kani::cover!(f == 0 && k == 0);
}
