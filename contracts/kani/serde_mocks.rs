// Shared adversarial serde mocks for the transcoder harnesses (included by stream.rs and value.rs with
// `include!`, so each harness module gets its own private copy of the ghost state).
//
// Every mock method may fail on its own; ghost bookkeeping records (a) which side failed FIRST, (b) whether
// an error value was created by that side for its own reason ("own") or through Error::custom
// ("synthetic"), and (c) the sequence of events the deserializer produced, against which every call the
// serializer receives is compared on the fly.
#[allow(dead_code, unused_imports)]
mod mocks {
use serde::de::{self, DeserializeSeed, Deserializer, MapAccess, SeqAccess, Visitor as DeVisitor};
use serde::ser::{self, Serialize, SerializeMap, SerializeSeq, Serializer};
use serde::forward_to_deserialize_any;
use std::error;
use std::fmt;

// 0 = none yet, 1 = deserializer failed first, 2 = serializer failed first
pub(super) static mut FIRST: u8 = 0;
pub(super) fn note(side: u8) { unsafe { if FIRST == 0 { FIRST = side; } } }
pub(super) fn first() -> u8 { unsafe { FIRST } }

pub(super) const LOGN: usize = 40;
pub(super) static mut DE_LOG: [(u8, u64); LOGN] = [(0, 0); LOGN];
pub(super) static mut DE_POS: usize = 0;
pub(super) static mut SER_POS: usize = 0;
pub(super) fn reset_mocks() { unsafe { FIRST = 0; DE_POS = 0; SER_POS = 0; ERR_ID = 0; FIRST_ID = 0; SCRIPT_POS = 0; } }
pub(super) fn de_log(k: u8, v: u64) { unsafe { if DE_POS < LOGN { DE_LOG[DE_POS] = (k, v); } DE_POS += 1; } }
pub(super) fn ser_log(k: u8, v: u64) {
	unsafe {
		// C01 / C12, checked on the fly: the serializer receives exactly the next event the deserializer
		// produced -- same kind, same payload, same order; nothing skipped, duplicated or invented
		assert!(SER_POS < DE_POS && SER_POS < LOGN, "serializer received an event the deserializer never produced");
		assert!(DE_LOG[SER_POS].0 == k && DE_LOG[SER_POS].1 == v, "serializer received a different event than the deserializer produced");
		SER_POS += 1;
	}
}

// event kinds
pub(super) const E_UNIT: u8 = 1; pub(super) const E_BOOL: u8 = 2; pub(super) const E_U64: u8 = 3; pub(super) const E_SEQ: u8 = 4; pub(super) const E_SEQ_END: u8 = 5;
pub(super) const E_MAP: u8 = 6; pub(super) const E_MAP_END: u8 = 7; pub(super) const E_ELEM: u8 = 8; pub(super) const E_KEY: u8 = 9; pub(super) const E_VAL: u8 = 10;
pub(super) const E_I64: u8 = 11; pub(super) const E_F64: u8 = 12; pub(super) const E_STR: u8 = 13;

#[derive(Debug)]
pub(super) struct DeErr { pub synthetic: bool, pub id: u8 }
impl fmt::Display for DeErr { fn fmt(&self, _: &mut fmt::Formatter) -> fmt::Result { Ok(()) } }
impl error::Error for DeErr {}
impl de::Error for DeErr { fn custom<T: fmt::Display>(_: T) -> Self { DeErr { synthetic: true, id: 0 } } }

#[derive(Debug)]
pub(super) struct SerErr { pub synthetic: bool, pub id: u8 }
impl fmt::Display for SerErr { fn fmt(&self, _: &mut fmt::Formatter) -> fmt::Result { Ok(()) } }
impl error::Error for SerErr {}
impl ser::Error for SerErr { fn custom<T: fmt::Display>(_: T) -> Self { SerErr { synthetic: true, id: 0 } } }

pub(super) static mut ERR_ID: u8 = 0;
pub(super) static mut FIRST_ID: u8 = 0;
pub(super) fn fresh_id(side: u8) -> u8 { unsafe { ERR_ID += 1; if FIRST == 0 { FIRST_ID = ERR_ID; } note(side); ERR_ID } }
pub(super) fn de_fail() -> DeErr { let id = fresh_id(1); DeErr { synthetic: false, id } }
pub(super) fn ser_fail() -> SerErr { let id = fresh_id(2); SerErr { synthetic: false, id } }

// harnesses that only care about fidelity switch deserializer failures off (a failing deserializer makes the
// code under test drop partially built symbolic values, which CBMC cannot afford)
pub(super) static mut DE_MAY_FAIL: bool = true;
pub(super) fn de_may_fail() -> bool { let on = unsafe { DE_MAY_FAIL }; on && kani::any() }
// Scripted mode: the SHAPE of the document (which event at each step, how many elements) is read from a
// concrete script, so allocation sizes and control flow are concrete; payloads and failures stay symbolic.
pub(super) static mut SCRIPT_ON: bool = false;
pub(super) static mut SCRIPT: [u8; 16] = [0; 16];
pub(super) static mut SCRIPT_POS: usize = 0;
pub(super) static mut FIXED_BOOLS: bool = false;
pub(super) fn choose(bound: u8) -> u8 {
	unsafe {
		if SCRIPT_ON { let v = SCRIPT[SCRIPT_POS]; SCRIPT_POS += 1; assert!(v < bound); v }
		else { let k: u8 = kani::any(); kani::assume(k < bound); k }
	}
}
pub(super) struct MockDe { pub depth: u8 }
impl<'de> Deserializer<'de> for MockDe {
	type Error = DeErr;
	fn deserialize_any<V: DeVisitor<'de>>(self, v: V) -> Result<V::Value, DeErr> {
		// event 6 (a short string, for map keys) exists only in scripted mode, so the unscripted harnesses keep their domain
		let k: u8 = choose(if unsafe { SCRIPT_ON } { 7 } else { 6 });
		let may_fail = unsafe { DE_MAY_FAIL };
		kani::assume(k != 0 || may_fail);
		match k {
			0 => Err(de_fail()),
			1 => { let b: bool = if unsafe { SCRIPT_ON && FIXED_BOOLS } { true } else { kani::any() }; de_log(E_BOOL, b as u64); v.visit_bool(b) }
			2 => { let x: u64 = kani::any(); de_log(E_U64, x); v.visit_u64(x) }
			3 if self.depth > 0 => {
				let n: u8 = choose(3);
				de_log(E_SEQ, n as u64);
				v.visit_seq(MockSeq { remaining: n, depth: self.depth - 1 })
			}
			4 if self.depth > 0 => {
				let n: u8 = choose(2);
				de_log(E_MAP, n as u64);
				v.visit_map(MockMap { remaining: n, depth: self.depth - 1 })
			}
			6 => { de_log(E_STR, 1); v.visit_str("k") }
			_ => { de_log(E_UNIT, 0); v.visit_unit() }
		}
	}
	forward_to_deserialize_any! {
		bool i8 i16 i32 i64 i128 u8 u16 u32 u64 u128 f32 f64 char str string
		bytes byte_buf option unit unit_struct newtype_struct seq tuple
		tuple_struct map struct enum identifier ignored_any
	}
}
pub(super) struct MockSeq { remaining: u8, depth: u8 }
impl<'de> SeqAccess<'de> for MockSeq {
	type Error = DeErr;
	fn next_element_seed<T: DeserializeSeed<'de>>(&mut self, seed: T) -> Result<Option<T::Value>, DeErr> {
		if de_may_fail() { return Err(de_fail()); }
		if self.remaining == 0 { de_log(E_SEQ_END, 0); return Ok(None); }
		self.remaining -= 1;
		de_log(E_ELEM, 0);
		seed.deserialize(MockDe { depth: self.depth }).map(Some)
	}
	fn size_hint(&self) -> Option<usize> { Some(self.remaining as usize) }
}
pub(super) struct MockMap { remaining: u8, depth: u8 }
impl<'de> MapAccess<'de> for MockMap {
	type Error = DeErr;
	fn next_key_seed<K: DeserializeSeed<'de>>(&mut self, seed: K) -> Result<Option<K::Value>, DeErr> {
		if de_may_fail() { return Err(de_fail()); }
		if self.remaining == 0 { de_log(E_MAP_END, 0); return Ok(None); }
		self.remaining -= 1;
		de_log(E_KEY, 0);
		seed.deserialize(MockDe { depth: self.depth }).map(Some)
	}
	fn next_value_seed<V: DeserializeSeed<'de>>(&mut self, seed: V) -> Result<V::Value, DeErr> {
		if de_may_fail() { return Err(de_fail()); }
		de_log(E_VAL, 0);
		seed.deserialize(MockDe { depth: self.depth })
	}
	fn size_hint(&self) -> Option<usize> { Some(self.remaining as usize) }
}

// the length hint as it is logged on both sides: the serializer must be given EXACTLY the deserializer's size_hint (rmp_serde writes it as the array / map header)
pub(super) fn hint_code(hint: Option<usize>) -> u64 { match hint { Some(h) => h as u64, None => u64::MAX } }
pub(super) struct MockSer;
pub(super) struct MockCompound { is_map: bool }
pub(super) fn maybe_fail() -> Result<(), SerErr> { if kani::any() { Err(ser_fail()) } else { Ok(()) } }
macro_rules! unsupported_scalars { ($($name:ident($ty:ty))*) => { $(fn $name(self, _v: $ty) -> Result<(), SerErr> { unreachable!() })* } }
impl Serializer for MockSer {
	type Ok = (); type Error = SerErr;
	type SerializeSeq = MockCompound; type SerializeTuple = ser::Impossible<(), SerErr>;
	type SerializeTupleStruct = ser::Impossible<(), SerErr>; type SerializeTupleVariant = ser::Impossible<(), SerErr>;
	type SerializeMap = MockCompound; type SerializeStruct = ser::Impossible<(), SerErr>;
	type SerializeStructVariant = ser::Impossible<(), SerErr>;
	unsupported_scalars! { serialize_i8(i8) serialize_i16(i16) serialize_i32(i32) serialize_i64(i64)
		serialize_u8(u8) serialize_u16(u16) serialize_u32(u32) serialize_f32(f32) serialize_f64(f64)
		serialize_char(char) serialize_str(&str) serialize_bytes(&[u8]) }
	fn serialize_bool(self, v: bool) -> Result<(), SerErr> { maybe_fail()?; ser_log(E_BOOL, v as u64); Ok(()) }
	fn serialize_u64(self, v: u64) -> Result<(), SerErr> { maybe_fail()?; ser_log(E_U64, v); Ok(()) }
	fn serialize_unit(self) -> Result<(), SerErr> { maybe_fail()?; ser_log(E_UNIT, 0); Ok(()) }
	fn serialize_none(self) -> Result<(), SerErr> { unreachable!() }
	fn serialize_some<T: ?Sized + Serialize>(self, _: &T) -> Result<(), SerErr> { unreachable!() }
	fn serialize_unit_struct(self, _: &'static str) -> Result<(), SerErr> { unreachable!() }
	fn serialize_unit_variant(self, _: &'static str, _: u32, _: &'static str) -> Result<(), SerErr> { unreachable!() }
	fn serialize_newtype_struct<T: ?Sized + Serialize>(self, _: &'static str, _: &T) -> Result<(), SerErr> { unreachable!() }
	fn serialize_newtype_variant<T: ?Sized + Serialize>(self, _: &'static str, _: u32, _: &'static str, _: &T) -> Result<(), SerErr> { unreachable!() }
	fn serialize_seq(self, hint: Option<usize>) -> Result<MockCompound, SerErr> { maybe_fail()?; ser_log(E_SEQ, hint_code(hint)); Ok(MockCompound { is_map: false }) }
	fn serialize_tuple(self, _: usize) -> Result<Self::SerializeTuple, SerErr> { unreachable!() }
	fn serialize_tuple_struct(self, _: &'static str, _: usize) -> Result<Self::SerializeTupleStruct, SerErr> { unreachable!() }
	fn serialize_tuple_variant(self, _: &'static str, _: u32, _: &'static str, _: usize) -> Result<Self::SerializeTupleVariant, SerErr> { unreachable!() }
	fn serialize_map(self, hint: Option<usize>) -> Result<MockCompound, SerErr> { maybe_fail()?; ser_log(E_MAP, hint_code(hint)); Ok(MockCompound { is_map: true }) }
	fn serialize_struct(self, _: &'static str, _: usize) -> Result<Self::SerializeStruct, SerErr> { unreachable!() }
	fn serialize_struct_variant(self, _: &'static str, _: u32, _: &'static str, _: usize) -> Result<Self::SerializeStructVariant, SerErr> { unreachable!() }
}
impl SerializeSeq for MockCompound {
	type Ok = (); type Error = SerErr;
	fn serialize_element<T: ?Sized + Serialize>(&mut self, v: &T) -> Result<(), SerErr> {
		maybe_fail()?;                 // e.g. writing ',' failed, before the element is visited
		ser_log(E_ELEM, 0);
		v.serialize(MockSer)?;
		maybe_fail()                   // e.g. a write after the element failed
	}
	fn end(self) -> Result<(), SerErr> { assert!(!self.is_map); maybe_fail()?; ser_log(E_SEQ_END, 0); Ok(()) }
}
impl SerializeMap for MockCompound {
	type Ok = (); type Error = SerErr;
	fn serialize_key<T: ?Sized + Serialize>(&mut self, v: &T) -> Result<(), SerErr> {
		maybe_fail()?;
		ser_log(E_KEY, 0);
		v.serialize(MockSer)?;
		maybe_fail()
	}
	fn serialize_value<T: ?Sized + Serialize>(&mut self, v: &T) -> Result<(), SerErr> {
		maybe_fail()?;                 // e.g. writing ':' failed
		ser_log(E_VAL, 0);
		v.serialize(MockSer)?;
		maybe_fail()
	}
	fn end(self) -> Result<(), SerErr> { assert!(self.is_map); maybe_fail()?; ser_log(E_MAP_END, 0); Ok(()) }
}

// ---- scalars: loop-free, full value domain (complete) ------------------------------------------------

pub(super) static mut REC_KIND: u8 = 0;
pub(super) static mut REC_BITS: u128 = 0;
pub(super) static mut REC_PTR: *const u8 = std::ptr::null();
pub(super) static mut REC_CALLS: u8 = 0;
pub(super) struct RecSer { pub fail: bool }
pub(super) fn rec(kind: u8, bits: u128, fail: bool) -> Result<(), SerErr> {
	unsafe { REC_KIND = kind; REC_BITS = bits; REC_CALLS += 1; }
	if fail { Err(ser_fail()) } else { Ok(()) }
}
macro_rules! rec_scalars { ($($name:ident($ty:ty) = $k:expr, $conv:expr;)*) => { $(fn $name(self, v: $ty) -> Result<(), SerErr> { rec($k, ($conv)(v), self.fail) })* } }
impl Serializer for RecSer {
	type Ok = (); type Error = SerErr;
	type SerializeSeq = ser::Impossible<(), SerErr>; type SerializeTuple = ser::Impossible<(), SerErr>;
	type SerializeTupleStruct = ser::Impossible<(), SerErr>; type SerializeTupleVariant = ser::Impossible<(), SerErr>;
	type SerializeMap = ser::Impossible<(), SerErr>; type SerializeStruct = ser::Impossible<(), SerErr>;
	type SerializeStructVariant = ser::Impossible<(), SerErr>;
	rec_scalars! {
		serialize_bool(bool) = 1, |v: bool| v as u128;
		serialize_i8(i8) = 2, |v: i8| v as u8 as u128;
		serialize_i16(i16) = 3, |v: i16| v as u16 as u128;
		serialize_i32(i32) = 4, |v: i32| v as u32 as u128;
		serialize_i64(i64) = 5, |v: i64| v as u64 as u128;
		serialize_i128(i128) = 6, |v: i128| v as u128;
		serialize_u8(u8) = 7, |v: u8| v as u128;
		serialize_u16(u16) = 8, |v: u16| v as u128;
		serialize_u32(u32) = 9, |v: u32| v as u128;
		serialize_u64(u64) = 10, |v: u64| v as u128;
		serialize_u128(u128) = 11, |v: u128| v;
		serialize_f32(f32) = 12, |v: f32| v.to_bits() as u128;
		serialize_f64(f64) = 13, |v: f64| v.to_bits() as u128;
		serialize_char(char) = 14, |v: char| v as u32 as u128;
	}
	fn serialize_str(self, v: &str) -> Result<(), SerErr> { unsafe { REC_PTR = v.as_ptr(); } rec(15, v.len() as u128, self.fail) }
	fn serialize_bytes(self, v: &[u8]) -> Result<(), SerErr> { unsafe { REC_PTR = v.as_ptr(); } rec(16, v.len() as u128, self.fail) }
	fn serialize_unit(self) -> Result<(), SerErr> { rec(17, 0, self.fail) }
	fn serialize_none(self) -> Result<(), SerErr> { unreachable!() }
	fn serialize_some<T: ?Sized + Serialize>(self, _: &T) -> Result<(), SerErr> { unreachable!() }
	fn serialize_unit_struct(self, _: &'static str) -> Result<(), SerErr> { unreachable!() }
	fn serialize_unit_variant(self, _: &'static str, _: u32, _: &'static str) -> Result<(), SerErr> { unreachable!() }
	fn serialize_newtype_struct<T: ?Sized + Serialize>(self, _: &'static str, _: &T) -> Result<(), SerErr> { unreachable!() }
	fn serialize_newtype_variant<T: ?Sized + Serialize>(self, _: &'static str, _: u32, _: &'static str, _: &T) -> Result<(), SerErr> { unreachable!() }
	fn serialize_seq(self, _: Option<usize>) -> Result<Self::SerializeSeq, SerErr> { unreachable!() }
	fn serialize_tuple(self, _: usize) -> Result<Self::SerializeTuple, SerErr> { unreachable!() }
	fn serialize_tuple_struct(self, _: &'static str, _: usize) -> Result<Self::SerializeTupleStruct, SerErr> { unreachable!() }
	fn serialize_tuple_variant(self, _: &'static str, _: u32, _: &'static str, _: usize) -> Result<Self::SerializeTupleVariant, SerErr> { unreachable!() }
	fn serialize_map(self, _: Option<usize>) -> Result<Self::SerializeMap, SerErr> { unreachable!() }
	fn serialize_struct(self, _: &'static str, _: usize) -> Result<Self::SerializeStruct, SerErr> { unreachable!() }
	fn serialize_struct_variant(self, _: &'static str, _: u32, _: &'static str, _: usize) -> Result<Self::SerializeStructVariant, SerErr> { unreachable!() }
}


}
