// U-CAP: step-inductive contract harnesses for the rewindable input handle of src/input.rs
// (child module `input::verif_kani`: private fields of CaptureReader / Handle are visible).
//
// Representation invariant of a CaptureReader over a source that owns the fixed stream data[..len]
// and has delivered `off` bytes of it so far:
//     I(cr)  ==  cr.prefix.get_ref() == data[..off]  &&  cr.prefix.position() <= off
//                &&  (cr.source_eof ==> off == len)
// Every operation is run ONCE from an ARBITRARY state satisfying I, against a source that may
// short-read, fail, or hit EOF at will; I and the output relation are asserted afterwards.  By
// induction on the number of operations the contract holds after any program of reads, prefix
// requests, rewinds and re-borrows.  Bounded only in buffer sizes (stated per harness).
use super::*;

/// A source that owns a fixed symbolic stream and delivers it with nondeterministic short reads and
/// nondeterministic errors.  `lie` makes it over-report (violating the Read contract).
struct Src<const N: usize> { data: [u8; N], len: usize, off: usize, reads: usize, errs: usize, last_zero: bool }
impl<const N: usize> Read for Src<N> {
	fn read(&mut self, buf: &mut [u8]) -> io::Result<usize> {
		self.reads += 1;
		if kani::any() { self.errs += 1; return Err(io::ErrorKind::ConnectionReset.into()); }
		let avail = self.len - self.off;
		let want = std::cmp::min(avail, buf.len());
		let k: usize = kani::any();
		kani::assume(k <= want && (k > 0 || want == 0));
		let mut i = 0;
		while i < k { buf[i] = self.data[self.off + i]; i += 1; }
		self.off += k;
		self.last_zero = k == 0;
		Ok(k)
	}
}

/// An arbitrary CaptureReader state satisfying the invariant.
fn any_valid<const N: usize>() -> (CaptureReader<Src<N>>, [u8; N], usize, usize, usize) {
	let data: [u8; N] = kani::any();
	let len: usize = kani::any(); kani::assume(len <= N);
	let off: usize = kani::any(); kani::assume(off <= len);
	let mut cr = CaptureReader::new(Src { data, len, off, reads: 0, errs: 0, last_zero: false });
	cr.prefix.get_mut().extend_from_slice(&data[..off]);
	let pos: usize = kani::any(); kani::assume(pos <= off);
	cr.prefix.set_position(pos as u64);
	let eof: bool = kani::any();
	kani::assume(!eof || off == len);
	cr.source_eof = eof;
	(cr, data, len, off, pos)
}

fn assert_invariant<const N: usize>(cr: &CaptureReader<Src<N>>, data: &[u8; N], len: usize) {
	let off1 = cr.source.off;
	assert!(cr.prefix.get_ref().len() == off1, "capture length == bytes delivered by the source");
	let mut i = 0; while i < off1 { assert!(cr.prefix.get_ref()[i] == data[i], "capture == stream prefix"); i += 1; }
	assert!(cr.prefix.position() as usize <= off1, "cursor inside the capture");
	if cr.source_eof { assert!(off1 == len, "source_eof only at the real end of the stream"); }
}

fn read_step<const N: usize, const B: usize>() {
	let (mut cr, data, len, off, pos) = any_valid::<N>();
	let mut buf = [0u8; B];
	let bl: usize = kani::any(); kani::assume(bl <= B);
	let r = cr.read(&mut buf[..bl]);
	let off1 = cr.source.off;
	assert_invariant(&cr, &data, len);
	assert!(cr.source.reads <= 1, "at most one read of the source per read (no read-ahead)");
	match r {
		Ok(n) => {
			assert!(n <= bl);
			assert!(cr.prefix.position() as usize == pos + n, "cursor advances by what was returned");
			let mut i = 0; while i < n { assert!(buf[i] == data[pos + i], "bytes returned are the stream at the cursor"); i += 1; }
			if n == 0 && bl > 0 { assert!(pos == off && off1 == len && cr.source_eof, "Ok(0) only at the true end of the stream"); }
			if cr.source.reads == 1 { assert!(pos + n == off1 || n == bl); assert!(cr.source_eof == cr.source.last_zero); }
			// the source is only consulted once the captured bytes are used up, and never for more than fits buf
			if cr.source.reads == 1 { assert!(off - pos < bl || bl == 0); assert!(off1 - off <= bl - (off - pos)); }
			kani::cover!(n > 0 && cr.source.reads == 1 && pos < off, "replay of captured bytes continues into the source");
			kani::cover!(n == 0 && bl > 0, "end of stream");
		}
		Err(_) => {
			assert!(cr.source.errs == 1, "Err only if the source itself failed");
			assert!(off1 == off, "a failed source read loses and invents no byte");
			kani::cover!(true, "source error propagates");
		}
	}
	if cr.source.errs == 1 { assert!(r.is_err(), "a source error is never swallowed"); }
}

// (read does not call read_to_end today; the stub keeps the harness decidable if a change makes it do so)
#[kani::proof]
#[kani::unwind(6)]
#[kani::stub(std::io::default_read_to_end, read_to_end_contract)]
fn cap_read_step() { read_step::<4, 3>(); }

#[kani::proof]
#[kani::unwind(8)]
#[kani::stub(std::io::default_read_to_end, read_to_end_contract)]
fn cap_read_step_big() { read_step::<6, 4>(); }

#[kani::proof]
#[kani::unwind(6)]
fn cap_rewind_step() {
	let (mut cr, data, len, off, _pos) = any_valid::<4>();
	let eof0 = cr.source_eof;
	cr.rewind();
	assert_invariant(&cr, &data, len);
	assert!(cr.prefix.position() == 0 && cr.source.off == off && cr.source.reads == 0 && cr.source_eof == eof0);
	assert!(cr.captured_unread_size() == off);
}

#[kani::proof]
#[kani::unwind(6)]
fn cap_unread_size_never_underflows() {
	let (cr, _data, _len, off, pos) = any_valid::<4>();
	assert!(cr.captured_unread_size() == off - pos);
	assert!(cr.captured().len() == off);
}

// executable statement of the documented contract of Read::read_to_end: append what the reader delivers
// until Ok(0) or Err, keeping what was delivered (std's real default_read_to_end is out of CBMC's reach)
fn read_to_end_contract<R: Read + ?Sized>(r: &mut R, buf: &mut Vec<u8>, _hint: Option<usize>) -> io::Result<usize> {
	let mut total = 0; let mut tmp = [0u8; 2];
	loop { let n = r.read(&mut tmp)?; if n == 0 { return Ok(total); } buf.extend_from_slice(&tmp[..n]); total += n; }
}

fn up_to_size_step<const N: usize>() {
	let (mut cr, data, len, off, pos) = any_valid::<N>();
	let size: usize = kani::any(); kani::assume(size <= N + 2);
	let r = cr.capture_up_to_size(size);
	let off1 = cr.source.off;
	assert_invariant(&cr, &data, len);
	assert!(cr.prefix.position() as usize == pos, "prefix requests do not move the cursor");
	assert!(off1 <= std::cmp::max(off, size), "never captures beyond the requested size (the 2 MiB / 4 B / 1 B caps are real caps)");
	match r {
		Ok(()) => {
			assert!(off1 >= std::cmp::min(size, len), "Ok: at least min(size, |stream|) bytes are captured");
			assert!(cr.source.errs == 0);
			kani::cover!(off1 > off && !cr.source_eof, "captured more, not at EOF");
			kani::cover!(cr.source_eof && off1 == len && off1 > off, "hit EOF while capturing");
		}
		Err(_) => { assert!(cr.source.errs >= 1); kani::cover!(off1 > off, "error after partial capture keeps the bytes"); }
	}
	if cr.source.errs >= 1 { assert!(r.is_err()); }
}

#[kani::proof]
#[kani::unwind(7)]
#[kani::stub(std::io::default_read_to_end, read_to_end_contract)]
fn cap_capture_up_to_size_step() { up_to_size_step::<4>(); }

#[kani::proof]
#[kani::unwind(9)]
#[kani::stub(std::io::default_read_to_end, read_to_end_contract)]
fn cap_capture_up_to_size_step_big() { up_to_size_step::<6>(); }

#[kani::proof]
#[kani::unwind(7)]
#[kani::stub(std::io::default_read_to_end, read_to_end_contract)]
fn cap_capture_to_end_step() {
	let (mut cr, data, len, _off, pos) = any_valid::<4>();
	let r = cr.capture_to_end();
	assert_invariant(&cr, &data, len);
	assert!(cr.prefix.position() as usize == pos);
	match r {
		Ok(()) => { assert!(cr.source.off == len && cr.source_eof && cr.source.errs == 0); kani::cover!(true); }
		Err(_) => { assert!(cr.source.errs >= 1); kani::cover!(true); }
	}
	if cr.source.errs >= 1 { assert!(r.is_err()); }
}

// ---- Handle / Ref / Input: the public face of the capture reader -------------------------------------

/// A Handle whose capture reader is in an arbitrary valid state (as left by any earlier borrows).
fn any_handle<'a, const N: usize>() -> (Handle<'a>, [u8; N], usize, usize, bool) {
	let (cr, data, len, off, _pos) = any_valid::<N>();
	let eof = cr.source_eof;
	let pos = cr.prefix.position();
	let (prefix, source) = cr.into_inner();
	let mut g: GuardedCaptureReader<Box<dyn Read + 'a>> = GuardedCaptureReader::new(Box::new(source));
	g.0.prefix = prefix;
	g.0.prefix.set_position(pos);
	g.0.source_eof = eof;
	(Handle(Source::Reader(g)), data, len, off, eof)
}

#[kani::proof]
#[kani::unwind(6)]
fn handle_borrow_mut_always_rewinds() {
	let (mut h, data, _len, off, eof) = any_handle::<4>();
	match h.borrow_mut() {
		Ref::Slice(b) => {
			assert!(eof, "a slice is handed out only once the source is exhausted");
			assert!(b.len() == off);
			let mut i = 0; while i < off { assert!(b[i] == data[i]); i += 1; }
			kani::cover!(true);
		}
		Ref::Reader(r) => {
			assert!(!eof);
			assert!(r.prefix.position() == 0, "every borrow starts at byte 0 of the stream");
			assert!(r.prefix.get_ref().len() == off);
			kani::cover!(off > 0);
		}
	}
}

#[kani::proof]
#[kani::unwind(6)]
fn handle_borrow_mut_slice_is_identity() {
	let data: [u8; 3] = kani::any();
	let n: usize = kani::any(); kani::assume(n <= 3);
	let mut h = Handle::from_slice(&data[..n]);
	match h.borrow_mut() { Ref::Slice(b) => { assert!(b.as_ptr() == data.as_ptr() && b.len() == n); } Ref::Reader(_) => assert!(false) }
	match Input::from(h) { Input::Slice(c) => { assert!(c.len() == n && c.as_ptr() == data.as_ptr()); } Input::Reader(_) => assert!(false) };
}

#[kani::proof]
#[kani::unwind(7)]
#[kani::stub(std::io::default_read_to_end, read_to_end_contract)]
fn ref_prefix_contract() {
	let (mut h, data, len, off, _eof) = any_handle::<4>();
	let hint: usize = kani::any(); kani::assume(hint <= 6);
	let mut rf = h.borrow_mut();
	let was_slice = matches!(rf, Ref::Slice(_));
	match rf.prefix(hint) {
		Ok(p) => {
			assert!(p.len() <= len);
			assert!(p.len() >= std::cmp::min(hint, len) || was_slice && p.len() == off);
			assert!(p.len() >= off);
			assert!(p.len() <= std::cmp::max(off, hint));
			let mut i = 0; while i < p.len() { assert!(p[i] == data[i], "prefix is the start of the stream"); i += 1; }
			kani::cover!(p.len() > off);
		}
		Err(_) => { kani::cover!(true); }
	}
}

/// Taking ownership after any history: the translator gets exactly the stream, from byte 0.
fn drain<R: Read>(mut r: R, out: &mut [u8; 8]) -> Option<usize> {
	let mut total = 0usize;
	let mut tmp = [0u8; 2];
	let mut guard = 0;
	loop {
		guard += 1; if guard > 12 { return None; }
		let want: usize = kani::any(); kani::assume(want >= 1 && want <= 2);
		match r.read(&mut tmp[..want]) {
			Ok(0) => return Some(total),
			Ok(n) => { let mut i = 0; while i < n { if total + i < 8 { out[total + i] = tmp[i]; } i += 1; } total += n; }
			Err(_) => { continue; } // transient source error: the consumer retries
		}
	}
}

#[kani::proof]
#[kani::unwind(14)]
fn input_from_handle_yields_whole_stream() {
	let (h, data, len, off, eof) = any_handle::<3>();
	match Input::from(h) {
		Input::Slice(c) => {
			assert!(eof && c.len() == off);
			let mut i = 0; while i < off { assert!(c[i] == data[i]); i += 1; }
			kani::cover!(true, "fully buffered input becomes a slice");
		}
		Input::Reader(r) => {
			assert!(!eof);
			let mut out = [0u8; 8];
			if let Some(total) = drain(r, &mut out) {
				assert!(total == len, "the translator sees the complete stream");
				let mut i = 0; while i < len { assert!(out[i] == data[i], "the translator sees the unaltered stream"); i += 1; }
				kani::cover!(off > 0 && total == len && len > off, "captured prefix chained in front of the source");
				kani::cover!(off == 0 && len > 0, "bare source when nothing was captured");
			}
		}
	}
}

#[kani::proof]
#[kani::unwind(7)]
#[kani::stub(std::io::default_read_to_end, read_to_end_contract)]
fn cow_try_from_handle_yields_whole_stream() {
	let (h, data, len, _off, _eof) = any_handle::<4>();
	let r: io::Result<Cow<'_, [u8]>> = h.try_into();
	match r {
		Ok(c) => { assert!(c.len() == len); let mut i = 0; while i < len { assert!(c[i] == data[i]); i += 1; } kani::cover!(len == 4); }
		Err(_) => { kani::cover!(true); }
	}
}

// ---- FusedReader: frees the captured prefix at its first EOF (C05) ----------------------------------

struct Script { results: [u8; 3], at: usize, dropped: *mut bool }
impl Read for Script {
	fn read(&mut self, buf: &mut [u8]) -> io::Result<usize> {
		let k = self.results[self.at % 3]; self.at += 1;
		if k == 255 { return Err(io::ErrorKind::Other.into()); }
		Ok(std::cmp::min(k as usize, buf.len()))
	}
}
impl Drop for Script { fn drop(&mut self) { unsafe { *self.dropped = true; } } }

#[kani::proof]
#[kani::unwind(5)]
fn fused_reader_contract() {
	let mut dropped = false;
	let results: [u8; 3] = kani::any();
	let mut f = FusedReader::new(Script { results, at: 0, dropped: &mut dropped });
	let mut buf = [0u8; 2];
	let bl: usize = kani::any(); kani::assume(bl <= 2);
	let mut step = 0;
	let mut seen_eof = false;
	while step < 3 {
		let k = results[step];
		let r = f.read(&mut buf[..bl]);
		if seen_eof {
			assert!(matches!(r, Ok(0)), "after its first EOF a fused reader stays at EOF");
			assert!(dropped);
		} else {
			match r {
				Ok(n) => {
					assert!(k != 255 && n == std::cmp::min(k as usize, bl));
					if n == 0 && bl > 0 { seen_eof = true; assert!(dropped, "inner reader (the captured prefix) is freed at its first EOF"); assert!(f.0.is_none()); }
					else { assert!(!dropped); }
				}
				Err(_) => { assert!(k == 255 && !dropped, "errors pass through and do not fuse"); }
			}
		}
		step += 1;
	}
	kani::cover!(seen_eof && bl > 0);
	kani::cover!(!seen_eof && bl > 0);
}

// ---- detection drives the handle: every trial gets a freshly rewound borrow --------------------------
// (lives here rather than in detect.rs because it inspects CaptureReader's private cursor; the trials do
// not read through Box<dyn Read> -- they check the cursor and then move it, as a real trial's reads would)

static mut TRIAL_OUTCOME: [u8; 4] = [0; 4];
static mut TRIALS_RUN: u8 = 0;
static mut REWOUND_OK: bool = true;
static mut STREAM_OK: bool = true;
static mut EXPECT_LEN: usize = 0;

fn trial_stub(i: usize, r: Ref) -> io::Result<bool> {
	unsafe {
		TRIALS_RUN += 1;
		match r {
			Ref::Slice(b) => { if b.len() != EXPECT_LEN { STREAM_OK = false; } }
			Ref::Reader(rd) => {
				if rd.prefix.position() != 0 { REWOUND_OK = false; }
				if rd.prefix.get_ref().len() != EXPECT_LEN { STREAM_OK = false; }
				// the trial consumes some of the captured bytes
				let k: usize = kani::any();
				kani::assume(k <= rd.prefix.get_ref().len());
				rd.prefix.set_position(k as u64);
			}
		}
		match TRIAL_OUTCOME[i] { 0 => Ok(false), 1 => Ok(true), _ => Err(io::ErrorKind::ConnectionReset.into()) }
	}
}
fn mp_trial(r: Ref) -> io::Result<bool> { trial_stub(0, r) }
fn js_trial(r: Ref) -> io::Result<bool> { trial_stub(1, r) }
fn ym_trial(r: Ref) -> io::Result<bool> { trial_stub(2, r) }
fn tm_trial(r: Ref) -> io::Result<bool> { trial_stub(3, r) }

/// detect_format on a reader-backed handle in ANY valid state, every combination of trial outcomes, each
/// trial moving the cursor by any amount: every trial starts at byte 0 of the stream and sees the whole capture.
#[kani::proof]
#[kani::unwind(6)]
#[kani::stub(crate::msgpack::input_matches, mp_trial)]
#[kani::stub(crate::json::input_matches, js_trial)]
#[kani::stub(crate::yaml::input_matches, ym_trial)]
#[kani::stub(crate::toml::input_matches, tm_trial)]
fn detect_trials_get_rewound_reader() {
	let (mut h, _data, _len, off, _eof) = any_handle::<4>();
	let o: [u8; 4] = kani::any();
	kani::assume(o[0] < 3 && o[1] < 3 && o[2] < 3 && o[3] < 3);
	unsafe { TRIAL_OUTCOME = o; EXPECT_LEN = off; }
	let r = crate::detect::detect_format(&mut h);
	assert!(unsafe { REWOUND_OK }, "a detection trial did not start at byte 0 of the stream");
	assert!(unsafe { STREAM_OK }, "a detection trial did not see the whole capture");
	kani::cover!(unsafe { TRIALS_RUN } == 4 && matches!(r, Ok(None)), "all four trials ran");
	std::mem::forget(r);
	// after detection the handle still rewinds for the translator
	match h.borrow_mut() { Ref::Reader(rd) => assert!(rd.prefix.position() == 0), Ref::Slice(b) => assert!(b.len() == off) }
}


/// Taking ownership after ANY history (C05 / C09): fully buffered => Input::Slice with the whole capture;
/// nothing captured and source not exhausted => the BARE source (the very same box: no capture wrapper survives
/// detection); otherwise a new reader (captured prefix chained in front of the source).  Decided without reading
/// through Box<dyn Read> (which CBMC cannot afford); the chain's behaviour is FusedReader's contract plus std's Chain.
// probe stub: counts how often the capture reader is taken apart (its parts handed on separately)
static mut INTO_INNER_CALLS: u8 = 0;
fn into_inner_probe<R: Read>(cr: CaptureReader<R>) -> (Cursor<Vec<u8>>, R) {
	unsafe { INTO_INNER_CALLS += 1; }
	(cr.prefix, cr.source)
}
#[kani::proof]
#[kani::unwind(6)]
#[kani::stub(CaptureReader::into_inner, into_inner_probe)]
fn input_from_handle_decision() {
	let (h, data, _len, off, eof) = any_handle::<4>();
	unsafe { INTO_INNER_CALLS = 0; }   // any_handle() itself builds the handle from parts
	let orig: *const u8 = match &h.0 { Source::Reader(g) => (&*g.0.source) as *const dyn Read as *const u8, Source::Slice(_) => std::ptr::null() };
	let input = Input::from(h);
	match &input {
		Input::Slice(c) => {
			assert!(eof, "a reader that is not exhausted must not be turned into a slice");
			assert!(c.len() == off);
			let mut i = 0; while i < off { assert!(c[i] == data[i]); i += 1; }
			kani::cover!(off > 0);
		}
		Input::Reader(r) => {
			assert!(!eof, "an exhausted reader must become a slice (no stale reader handed on)");
			let now: *const u8 = (&**r) as *const dyn Read as *const u8;
			if off == 0 { assert!(now == orig, "nothing was captured: the bare source must be handed on, without a wrapper"); kani::cover!(true, "bare source"); }
			else { assert!(now != orig, "captured bytes must be replayed in front of the source"); kani::cover!(true, "prefix chained"); }
			// C05: whatever is handed on, the capture wrapper itself must not survive (it would go on copying every byte
			// of the stream into the prefix buffer): the capture reader has been taken apart into prefix and source
			assert!(unsafe { INTO_INNER_CALLS } == 1, "the capture reader survives the hand-over (it would keep capturing the whole stream)");
		}
	}
	std::mem::forget(input);
}
