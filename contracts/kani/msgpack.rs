// U-MP-K / U-MP-G / U-MP-T and the bounded pair of the Verus unit U-MP: harnesses for src/msgpack.rs
// (child module `msgpack::verif_kani`, so private functions are visible).
use super::*;
use std::io::Cursor;

// ------------------------------------------------------------------------------------------
// U-MP-K: the three length readers that Verus only sees as assumed signatures (external_body).
// Same postconditions as contracts/verus/msgpack_size.py, proved here on the REAL bodies for every
// slice of length 0..=8 (the functions read at most bytes 1..=4, so longer slices add nothing).
// ------------------------------------------------------------------------------------------

fn any_slice8(buf: &[u8; 8]) -> &[u8] {
	let n: usize = kani::any();
	kani::assume(n <= 8);
	&buf[..n]
}

#[kani::proof]
fn try_read_length_8_contract() {
	let buf: [u8; 8] = kani::any();
	let input = any_slice8(&buf);
	let r = try_read_length_8(input);
	if input.len() >= 2 { assert!(r == Ok(input[1])); } else { assert!(r == Err(ReadSizeError::Truncated)); }
	kani::cover!(r.is_ok()); kani::cover!(r.is_err());
}

#[kani::proof]
fn try_read_length_16_contract() {
	let buf: [u8; 8] = kani::any();
	let input = any_slice8(&buf);
	let r = try_read_length_16(input);
	if input.len() >= 3 { assert!(r == Ok((input[1] as u16) * 256 + input[2] as u16)); } else { assert!(r == Err(ReadSizeError::Truncated)); }
	kani::cover!(r.is_ok()); kani::cover!(r.is_err());
}

#[kani::proof]
fn try_read_length_32_contract() {
	let buf: [u8; 8] = kani::any();
	let input = any_slice8(&buf);
	let r = try_read_length_32(input);
	if input.len() >= 5 {
		assert!(r == Ok((input[1] as u32) * 16777216 + (input[2] as u32) * 65536 + (input[3] as u32) * 256 + input[4] as u32));
	} else { assert!(r == Err(ReadSizeError::Truncated)); }
	kani::cover!(r.is_ok()); kani::cover!(r.is_err());
}

// (The executable transcription of the Verus spec functions lives in msgpack_execspec.rs; it is used by the native
// failing-input search contracts/native/msgpack_search.rs.  A Kani pair of next_value_size against it was tried
// and dropped: even with enumerated lengths <= 3 it needed > 15 GB / > 10 min.)

// ------------------------------------------------------------------------------------------
// U-MP-G: first-byte gate and error mapping of input_matches.  The rmp_serde trial is replaced by
// its assumed contract: any decode::Error variant; a *truncated* value yields InvalidMarkerRead /
// InvalidDataRead(UnexpectedEof) although the source never failed; a failing source yields
// Invalid*Read(e) with the source's own error e.
// ------------------------------------------------------------------------------------------

static mut SOURCE_FAILED: bool = false;
static mut TRIAL_RAN: bool = false;
static mut DEPTH_SET: [usize; 4] = [0; 4];
static mut DEPTH_CALLS: usize = 0;

fn rmp_result() -> Result<(), rmp_serde::decode::Error> {
	unsafe { TRIAL_RAN = true; }
	let k: u8 = kani::any();
	kani::assume(k < 8);
	match k {
		0 => Ok(()),
		1 => Err(InvalidMarkerRead(io::ErrorKind::UnexpectedEof.into())),
		2 => Err(InvalidDataRead(io::ErrorKind::UnexpectedEof.into())),
		3 => { unsafe { SOURCE_FAILED = true; } Err(InvalidDataRead(io::ErrorKind::ConnectionReset.into())) }
		4 => { unsafe { SOURCE_FAILED = true; } Err(InvalidMarkerRead(io::ErrorKind::PermissionDenied.into())) }
		5 => Err(rmp_serde::decode::Error::DepthLimitExceeded),
		6 => Err(rmp_serde::decode::Error::LengthMismatch(3)),
		_ => Err(rmp_serde::decode::Error::TypeMismatch(Marker::Reserved)),
	}
}
fn buffer_stub(_input: &[u8]) -> Result<(), rmp_serde::decode::Error> { rmp_result() }
fn reader_stub<R: Read>(_input: R) -> Result<(), rmp_serde::decode::Error> { rmp_result() }

fn is_collection_marker(b: u8) -> bool { (0x80..=0x9f).contains(&b) || (0xdc..=0xdf).contains(&b) }

/// Slice input, every first byte (all 256) and lengths 0..=2:
///  * the rmp trial runs iff byte 0 is a map/array marker; otherwise Ok(false)             (C09, C10)
///  * Err(e) only if the source itself reported an error; then always Err                 (C09, C12)
///  * a trial that runs out of input or meets a syntax error is skipped: Ok(false)        (C09)
#[kani::proof]
#[kani::unwind(3)]
#[kani::stub(match_input_buffer, buffer_stub)]
#[kani::stub(match_input_reader, reader_stub)]
fn mp_gate_and_error_mapping() {
	let b: [u8; 2] = kani::any();
	let n: usize = kani::any();
	kani::assume(n <= 2);
	let r = input_matches(Ref::Slice(&b[..n]));
	let collection = n >= 1 && is_collection_marker(b[0]);
	assert!(unsafe { TRIAL_RAN } == collection);
	match &r {
		Ok(true) => assert!(collection),
		Ok(false) => {}
		Err(_) => assert!(unsafe { SOURCE_FAILED }),
	}
	if !collection { assert!(matches!(r, Ok(false))); }
	if unsafe { SOURCE_FAILED } { assert!(r.is_err()); }
	// C10 consequences of the gate: first bytes of JSON / YAML / ASCII TOML output are rejected outright,
	// every map/array header rmp_serde writes is let through to the trial
	if n >= 1 && (b[0] == b'{' || b[0] == b'[' || b[0] == b'-' || b[0] == b'"' || b[0].is_ascii_alphanumeric() || b[0] == b'#' || b[0] == b'\n') {
		assert!(matches!(r, Ok(false)) && !unsafe { TRIAL_RAN });
	}
	kani::cover!(matches!(r, Ok(true)));
	kani::cover!(matches!(r, Err(_)));
	kani::cover!(collection && matches!(r, Ok(false)), "truncated / malformed collection is skipped");
}

/// An I/O error of the source met while fetching the first byte propagates (reader input).
struct FailingSource { fail: bool, byte: u8, done: bool }
impl Read for FailingSource {
	fn read(&mut self, buf: &mut [u8]) -> io::Result<usize> {
		if self.fail { unsafe { SOURCE_FAILED = true; } return Err(io::ErrorKind::ConnectionReset.into()); }
		if self.done || buf.is_empty() { return Ok(0); }
		buf[0] = self.byte; self.done = true; Ok(1)
	}
}
// executable statement of the documented contract of Read::read_to_end (std's real body is out of CBMC's reach)
fn read_to_end_contract<R: Read + ?Sized>(r: &mut R, buf: &mut Vec<u8>, _hint: Option<usize>) -> io::Result<usize> {
	let mut total = 0; let mut tmp = [0u8; 2];
	loop { let n = r.read(&mut tmp)?; if n == 0 { return Ok(total); } buf.extend_from_slice(&tmp[..n]); total += n; }
}

#[kani::proof]
#[kani::unwind(4)]
#[kani::stub(match_input_reader, reader_stub)]
#[kani::stub(match_input_buffer, buffer_stub)]
#[kani::stub(std::io::default_read_to_end, read_to_end_contract)]
fn mp_gate_reader_source_error_propagates() {
	let fail: bool = kani::any();
	let byte: u8 = kani::any();
	let mut h = input::Handle::from_reader(FailingSource { fail, byte, done: false });
	let r = input_matches(h.borrow_mut());
	if fail { assert!(r.is_err()); assert!(!unsafe { TRIAL_RAN }); }
	else {
		assert!(unsafe { TRIAL_RAN } == is_collection_marker(byte));
		if !is_collection_marker(byte) { assert!(matches!(r, Ok(false))); }
		if let Err(_) = &r { assert!(unsafe { SOURCE_FAILED }); }
	}
	kani::cover!(fail);
	kani::cover!(!fail && matches!(r, Ok(true)));
}

// ------------------------------------------------------------------------------------------
// U-MP-T: the slice loop of msgpack::transcode.  next_value_size is replaced by the contract Verus
// proved for it (non-empty input, limit d: Err(_) or Ok(n) with 1 <= n <= len); the Output is a mock
// that records which bytes each deserializer was built over.
// ------------------------------------------------------------------------------------------

const T_N: usize = 4;
static mut SZ_CALLS: usize = 0;
// the harness input is [0, 1, 2, ..]: the first byte of any sub-slice is its offset in the input
static mut SZ_PTR: [usize; 8] = [0; 8];
static mut SZ_LEN: [usize; 8] = [0; 8];
static mut SZ_RET: [usize; 8] = [0; 8]; // 0 = Err
static mut SZ_DEPTH_OK: bool = true;
static mut OUT_CALLS: usize = 0;
static mut OUT_PTR: [usize; 8] = [0; 8];
static mut OUT_LEN: [usize; 8] = [0; 8];
static mut OUT_FAILED: bool = false;

fn nvs_contract_stub(input: &[u8], depth_limit: usize) -> Result<usize, ReadSizeError> {
	unsafe {
		// precondition at the call site: the loop never asks for the size of an empty rest, and passes DEPTH_LIMIT
		assert!(!input.is_empty(), "next_value_size called on an empty rest");
		if depth_limit != DEPTH_LIMIT { SZ_DEPTH_OK = false; }
		let i = SZ_CALLS;
		assert!(i < 8);
		SZ_PTR[i] = input[0] as usize;
		SZ_LEN[i] = input.len();
		SZ_CALLS += 1;
		if kani::any() {
			SZ_RET[i] = 0;
			let k: u8 = kani::any();
			return Err(if k == 0 { ReadSizeError::Truncated } else if k == 1 { ReadSizeError::InvalidMarker } else { ReadSizeError::DepthLimitExceeded });
		}
		let n: usize = kani::any();
		kani::assume(n >= 1 && n <= input.len()); // the postcondition proved by Verus (U-MP)
		SZ_RET[i] = n;
		Ok(n)
	}
}

fn set_max_depth_probe<'de, R: rmp_serde::decode::ReadSlice<'de>, C: rmp_serde::config::SerializerConfig>(
	_de: &mut rmp_serde::Deserializer<R, C>, depth: usize) {
	unsafe { if DEPTH_CALLS < 4 { DEPTH_SET[DEPTH_CALLS] = depth; } DEPTH_CALLS += 1; }
}

struct SliceRecorder;
impl crate::Output for SliceRecorder {
	fn transcode_from<'de, D, E>(&mut self, de: D) -> crate::Result<()>
	where D: de::Deserializer<'de, Error = E>, E: de::Error + Send + Sync + 'static,
	{
		// At this call site D is `&mut rmp_serde::Deserializer<ReadRefReader<'_, [u8]>>`; recover the slice it reads.
		type Concrete<'a, 'b> = &'a mut rmp_serde::Deserializer<rmp_serde::decode::ReadRefReader<'b, [u8]>>;
		assert!(std::mem::size_of::<D>() == std::mem::size_of::<Concrete>());
		let conc: Concrete = unsafe { std::mem::transmute_copy(&de) };
		std::mem::forget(de);
		let whole: &[u8] = conc.get_ref();
		unsafe {
			let i = OUT_CALLS;
			assert!(i < 8);
			OUT_PTR[i] = if whole.is_empty() { usize::MAX } else { whole[0] as usize };
			OUT_LEN[i] = whole.len();
			OUT_CALLS += 1;
			if kani::any() { OUT_FAILED = true; return Err(crate::Error::from(io::Error::from(io::ErrorKind::Other))); }
		}
		Ok(())
	}
	fn transcode_value<S: ser::Serialize>(&mut self, _value: S) -> crate::Result<()> { unreachable!() }
	fn flush(&mut self) -> io::Result<()> { Ok(()) }
}

#[kani::proof]
#[kani::unwind(6)]
#[kani::stub(next_value_size, nvs_contract_stub)]
fn mp_transcode_slice_splits_in_order() {
	let buf: [u8; T_N] = [0, 1, 2, 3];
	let n: usize = kani::any();
	kani::assume(n <= T_N);
	let input = &buf[..n];
	let r = transcode(input::Handle::from_slice(input), SliceRecorder);
	unsafe {
		assert!(SZ_DEPTH_OK);
		// every size query is about the rest that follows the previous document, starting at the input
		let mut off = 0usize;
		let mut i = 0usize;
		let mut docs = 0usize;
		while i < SZ_CALLS {
			assert!(SZ_PTR[i] == off && SZ_LEN[i] == n - off);
			if SZ_RET[i] == 0 { assert!(i == SZ_CALLS - 1); break; }
			// the document handed to the output is exactly rest[..size]
			assert!(docs < OUT_CALLS);
			assert!(OUT_PTR[docs] == off && OUT_LEN[docs] == SZ_RET[i]);
			docs += 1;
			off += SZ_RET[i];
			i += 1;
		}
		assert!(docs == OUT_CALLS);
		let size_failed = SZ_CALLS > 0 && SZ_RET[SZ_CALLS - 1] == 0;
		// NOTE: a Result<_, Box<dyn Error>> with a symbolic discriminant must never be dropped under CBMC (the drop
		// glue dispatches over every error type behind a symbolic pointer): inspect it, then forget it.
		let ok = r.is_ok();
		std::mem::forget(r);
		if ok { assert!(!size_failed && !OUT_FAILED); assert!(off == n); } else { assert!(size_failed || OUT_FAILED); }
		if OUT_FAILED { assert!(!ok); }
		kani::cover!(OUT_CALLS == 3 && ok, "three documents");
		kani::cover!(size_failed && OUT_CALLS == 1, "second document malformed");
		kani::cover!(n == 0 && ok, "empty input");
	}
}

// ------------------------------------------------------------------------------------------
// C18: every rmp_serde deserializer xt builds gets set_max_depth(DEPTH_LIMIT) (observed through a stub
// of set_max_depth; the deserializers never run).
// ------------------------------------------------------------------------------------------

struct NoopOutput;
impl crate::Output for NoopOutput {
	fn transcode_from<'de, D, E>(&mut self, _de: D) -> crate::Result<()>
	where D: de::Deserializer<'de, Error = E>, E: de::Error + Send + Sync + 'static,
	{ Ok(()) }
	fn transcode_value<S: ser::Serialize>(&mut self, _value: S) -> crate::Result<()> { unreachable!() }
	fn flush(&mut self) -> io::Result<()> { Ok(()) }
}

fn ignored_any_stub<'de, D: de::Deserializer<'de>>(_d: D) -> Result<de::IgnoredAny, D::Error> { Ok(de::IgnoredAny) }

#[kani::proof]
#[kani::unwind(4)]
#[kani::stub(rmp_serde::decode::Deserializer::set_max_depth, set_max_depth_probe)]
#[kani::stub(next_value_size, nvs_contract_stub)]
fn mp_slice_deserializers_get_depth_limit() {
	let buf = [0xc0u8; 2];
	let n: usize = kani::any();
	kani::assume(n >= 1 && n <= 2);
	let r = transcode(input::Handle::from_slice(&buf[..n]), NoopOutput);
	let ok = r.is_ok();
	std::mem::forget(r);
	unsafe {
		assert!(DEPTH_CALLS == SZ_CALLS - if SZ_RET[SZ_CALLS - 1] == 0 { 1 } else { 0 });
		let mut i = 0; while i < DEPTH_CALLS && i < 4 { assert!(DEPTH_SET[i] == DEPTH_LIMIT); i += 1; }
		kani::cover!(DEPTH_CALLS == 2 && ok);
	}
	assert!(DEPTH_LIMIT == 1024);
}


