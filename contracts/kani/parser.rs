// U-PRS: contract harness for the unsafe libyaml read callback in src/yaml/chunker/parser.rs
// (child module `yaml::chunker::parser::verif_kani`).
use super::*;

/// A reader that may lie: returns any Ok(n) (even n > buf.len()) or an error, and writes arbitrary bytes
/// into the part of buf it really owns.
struct AnyReader { lied: bool, failed: bool }
impl Read for AnyReader {
	fn read(&mut self, buf: &mut [u8]) -> io::Result<usize> {
		if kani::any() { self.failed = true; return Err(io::ErrorKind::ConnectionReset.into()); }
		let mut i = 0;
		while i < buf.len() { buf[i] = kani::any(); i += 1; }
		let n: usize = kani::any();
		if n > buf.len() { self.lied = true; }
		Ok(n)
	}
}

const CAP: usize = 4;
const CANARY: u8 = 0xAA;

fn read_handler_step<const C: usize, const TOTAL: usize>() {
	// arbitrary pre-state: the bounce buffer is whatever an earlier call left behind (any length up to
	// TOTAL, i.e. possibly LARGER than the buffer libyaml offers now), and an earlier error may be stashed
	let mut bouncer = Vec::with_capacity(TOTAL);
	let pre: usize = kani::any();
	kani::assume(pre <= TOTAL);
	let mut i = 0; while i < pre { bouncer.push(0x55u8); i += 1; }
	let error = if kani::any() { Some(io::Error::from(io::ErrorKind::Other)) } else { None };
	let state = Box::into_raw(Box::new(ReadState { reader: AnyReader { lied: false, failed: false }, bouncer, error }));
	// libyaml's buffer is the first `cap` bytes of `dest`; the bytes behind it are a canary (any write
	// beyond buffer_size is an out-of-bounds write in the real parser)
	let mut dest = [CANARY; TOTAL];
	let cap: u64 = kani::any();
	kani::assume(cap as usize <= C);
	let mut size_read: u64 = 77;
	let rc = unsafe {
		Parser::<AnyReader>::read_handler(state.cast::<c_void>(), dest.as_mut_ptr(), cap, &mut size_read)
	};
	let st = unsafe { Box::from_raw(state) };
	// nothing beyond the buffer libyaml handed us is ever written
	let mut j = cap as usize;
	while j < TOTAL { assert!(dest[j] == CANARY, "write beyond buffer_size"); j += 1; }
	if rc == 1 {
		assert!(size_read <= cap, "READ_SUCCESS reports at most buffer_size bytes");
		assert!(st.error.is_none());
		assert!(!st.reader.failed && !st.reader.lied, "success only for an honest, successful read");
		let mut i = 0;
		while i < size_read as usize { assert!(dest[i] == st.bouncer[i], "libyaml receives exactly what the reader produced"); i += 1; }
		let mut j = size_read as usize;
		while j < cap as usize { assert!(dest[j] == CANARY, "bytes beyond size_read untouched"); j += 1; }
		kani::cover!(size_read == cap && cap > 0);
		kani::cover!(pre > cap as usize, "bounce buffer was larger than the buffer offered now");
		kani::cover!(size_read == 0 && cap > 0, "EOF");
	} else {
		assert!(rc == 0);
		assert!(st.error.is_some(), "READ_FAILURE always stashes the error for next_event");
		assert!(st.reader.failed || st.reader.lied);
		// (what a failing call leaves inside libyaml's own buffer / size_read is not part of C17 or C12; only the
		// bytes BEYOND buffer_size -- checked above -- must stay untouched)
		if st.reader.failed { assert!(st.error.as_ref().unwrap().kind() == io::ErrorKind::ConnectionReset, "the reader's own error is kept"); }
		kani::cover!(st.reader.lied, "over-reporting reader is refused");
		kani::cover!(st.reader.failed, "reader error is stashed");
	}
}

#[kani::proof]
#[kani::unwind(8)]
fn read_handler_contract() { read_handler_step::<4, 6>(); }

#[kani::proof]
#[kani::unwind(12)]
fn read_handler_contract_big() { read_handler_step::<8, 10>(); }

/// Degenerate arguments: null pointers are refused without touching anything.
#[kani::proof]
#[kani::unwind(3)]
fn read_handler_null_arguments() {
	let state = Box::into_raw(Box::new(ReadState { reader: AnyReader { lied: false, failed: false }, bouncer: vec![], error: None }));
	let mut dest = [CANARY; 2];
	let mut size_read: u64 = 77;
	let which: u8 = kani::any(); kani::assume(which < 3);
	let rc = unsafe {
		match which {
			0 => Parser::<AnyReader>::read_handler(std::ptr::null_mut(), dest.as_mut_ptr(), 2, &mut size_read),
			1 => Parser::<AnyReader>::read_handler(state.cast::<c_void>(), std::ptr::null_mut(), 2, &mut size_read),
			_ => Parser::<AnyReader>::read_handler(state.cast::<c_void>(), dest.as_mut_ptr(), 2, std::ptr::null_mut()),
		}
	};
	let st = unsafe { Box::from_raw(state) };
	assert!(rc == 0, "a call with a null argument must be refused");
	let _ = (size_read, dest, st);
}

// ---- Parser::next_event: a stashed reader error is re-surfaced, not replaced (C12) ----------------------
// libyaml's yaml_parser_parse is replaced (stub of Event::parse_next) by "the parse failed", which is what
// libyaml reports after read_handler returned READ_FAILURE.
fn parse_next_fails(_parser: &mut yaml_parser_t) -> Result<Event, ParserError> {
	Err(ParserError { problem: None, context: None })
}

// the reader's own error object: a custom payload, so that "the same error" can be told from "an error of the same kind"
#[derive(Debug)]
struct ReaderFault;
impl std::fmt::Display for ReaderFault { fn fmt(&self, _f: &mut std::fmt::Formatter<'_>) -> std::fmt::Result { Ok(()) } }
impl Error for ReaderFault {}

#[kani::proof]
#[kani::unwind(3)]
#[kani::stub(Event::parse_next, parse_next_fails)]
fn next_event_resurfaces_stashed_reader_error() {
	let stashed: bool = kani::any();
	let error = if stashed { Some(io::Error::new(io::ErrorKind::ConnectionReset, ReaderFault)) } else { None };
	let payload: *const u8 = match &error { Some(e) => match e.get_ref() { Some(r) => r as *const (dyn Error + Send + Sync) as *const u8, None => std::ptr::null() }, None => std::ptr::null() };
	let read_state = Box::into_raw(Box::new(ReadState { reader: AnyReader { lied: false, failed: false }, bouncer: Vec::with_capacity(1), error }));
	// a parser object that is never handed to libyaml (parse_next is stubbed, Drop is skipped with forget)
	let raw: Box<yaml_parser_t> = unsafe { Box::new(MaybeUninit::<yaml_parser_t>::zeroed().assume_init()) };
	let mut p = Parser { parser: raw, read_state };
	let r = p.next_event();
	match r {
		Ok(_) => assert!(false),
		Err(e) => {
			if stashed {
				assert!(e.kind() == io::ErrorKind::ConnectionReset, "the reader's own error must be re-surfaced");
				// C12 "a reader's error text is preserved": it is the SAME error object (its payload is the reader's), not a new
				// error that merely copies the kind
				let now: *const u8 = match e.get_ref() { Some(r) => r as *const (dyn Error + Send + Sync) as *const u8, None => std::ptr::null() };
				assert!(!payload.is_null() && now == payload, "the reader's error was replaced by another error (its message is lost)");
			}
			else { assert!(e.kind() == io::ErrorKind::InvalidData, "a pure syntax error is InvalidData"); }
			std::mem::forget(e);
		}
	}
	assert!(unsafe { (*read_state).error.is_none() }, "the stash is emptied once the error has been reported");
	std::mem::forget(p);
}

// ---- scripted libyaml: stubs used by the Chunker::next harnesses in chunker.rs --------------------------
// Assumed contract of the libyaml parser, made executable: it produces a sequence of events whose marks are
// monotone byte offsets into the stream it has read so far, and it pulls the stream through the reader.
pub(crate) const EV_MAX: usize = 10;
pub(crate) static mut EV_TYPE: [u32; EV_MAX] = [0; EV_MAX];     // 0 = error, otherwise a yaml_event_type_t discriminant + 1
pub(crate) static mut EV_START: [u64; EV_MAX] = [0; EV_MAX];
pub(crate) static mut EV_END: [u64; EV_MAX] = [0; EV_MAX];
pub(crate) static mut EV_LEN: usize = 0;
pub(crate) static mut EV_POS: usize = 0;
pub(crate) static mut EV_DELIVERED: u64 = 0;

pub(crate) fn fake_new<R: Read>(reader: R) -> Parser<R> {
	let read_state = Box::into_raw(Box::new(ReadState { reader, bouncer: Vec::with_capacity(1), error: None }));
	let raw: Box<yaml_parser_t> = unsafe { Box::new(MaybeUninit::<yaml_parser_t>::zeroed().assume_init()) };
	Parser { parser: raw, read_state }
}

pub(crate) fn scripted_next_event<R: Read>(p: &mut Parser<R>) -> Result<Event, io::Error> {
	unsafe {
		assert!(EV_POS < EV_LEN, "the chunker asked for an event after STREAM-END");
		let i = EV_POS; EV_POS += 1;
		// a failing parse: the error carries some OTHER kind (e.g. the UnexpectedEof of xt's own UTF-16 decoder)
		if EV_TYPE[i] == 0 { return Err(io::Error::from(io::ErrorKind::UnexpectedEof)); }
		// the parser has read at least up to the end mark of the event it reports
		let mut guard = 0;
		while EV_DELIVERED < EV_END[i] && guard < 3 {
			let mut buf = [0u8; 8];
			match p.reader_mut().read(&mut buf) { Ok(0) => break, Ok(n) => EV_DELIVERED += n as u64, Err(_) => {} }
			guard += 1;
		}
		let mut ev: yaml_event_t = MaybeUninit::<yaml_event_t>::zeroed().assume_init();
		ev.type_ = match EV_TYPE[i] { 1 => YAML_STREAM_START_EVENT, 2 => YAML_STREAM_END_EVENT, 3 => YAML_DOCUMENT_START_EVENT, 4 => YAML_DOCUMENT_END_EVENT,
			5 => YAML_ALIAS_EVENT, 6 => YAML_SCALAR_EVENT, 7 => YAML_SEQUENCE_START_EVENT, 8 => YAML_SEQUENCE_END_EVENT, 9 => YAML_MAPPING_START_EVENT, _ => YAML_MAPPING_END_EVENT };
		ev.start_mark.index = EV_START[i];
		ev.end_mark.index = EV_END[i];
		Ok(Event(ev))
	}
}

// ---- Drop for Event / Parser: everything libyaml handed out is given back exactly once (C17: no leak, no double free) ----
static mut EVENT_DELETES: u8 = 0;
static mut EVENT_DELETE_ARG_OK: bool = true;
static mut EXPECT_EVENT_AT: *const yaml_event_t = std::ptr::null();
unsafe fn event_delete_probe(event: *mut yaml_event_t) {
	unsafe {
		EVENT_DELETES += 1;
		if event as *const yaml_event_t != EXPECT_EVENT_AT { EVENT_DELETE_ARG_OK = false; }
	}
}
/// For EVERY event type libyaml can report, dropping the `Event` calls yaml_event_delete exactly once, on that event.
#[kani::proof]
#[kani::unwind(2)]
#[kani::stub(unsafe_libyaml::yaml_event_delete, event_delete_probe)]
fn event_drop_releases_every_event_type() {
	let k: u8 = kani::any(); kani::assume(k <= 10);
	let mut ev: yaml_event_t = unsafe { MaybeUninit::<yaml_event_t>::zeroed().assume_init() };
	ev.type_ = match k { 0 => YAML_NO_EVENT, 1 => YAML_STREAM_START_EVENT, 2 => YAML_STREAM_END_EVENT, 3 => YAML_DOCUMENT_START_EVENT, 4 => YAML_DOCUMENT_END_EVENT,
		5 => YAML_ALIAS_EVENT, 6 => YAML_SCALAR_EVENT, 7 => YAML_SEQUENCE_START_EVENT, 8 => YAML_SEQUENCE_END_EVENT, 9 => YAML_MAPPING_START_EVENT, _ => YAML_MAPPING_END_EVENT };
	{
		let e = Event(ev);
		unsafe { EXPECT_EVENT_AT = &e.0 as *const yaml_event_t; }
		assert!(e.event_type() == ev.type_);
		// `e` is dropped here
	}
	assert!(unsafe { EVENT_DELETES } == 1, "an event handed out by libyaml must be released exactly once, whatever its type");
	assert!(unsafe { EVENT_DELETE_ARG_OK }, "yaml_event_delete called on something else than the event");
}

static mut PARSER_DELETES: u8 = 0;
static mut READ_STATE_FREED_BEFORE_PARSER_DELETE: bool = false;
pub(crate) unsafe fn parser_delete_probe(_parser: *mut yaml_parser_t) { unsafe { PARSER_DELETES += 1; if READER_DROPS > 0 { READ_STATE_FREED_BEFORE_PARSER_DELETE = true; } } }
static mut READER_DROPS: u8 = 0;
struct DropProbeReader;
impl Read for DropProbeReader { fn read(&mut self, _buf: &mut [u8]) -> io::Result<usize> { Ok(0) } }
impl Drop for DropProbeReader { fn drop(&mut self) { unsafe { READER_DROPS += 1; } } }
/// Dropping a Parser deletes the libyaml parser exactly once and releases the read state (observed through the
/// reader it owns: dropped exactly once -- neither leaked nor freed twice).
#[kani::proof]
#[kani::unwind(3)]
#[kani::stub(unsafe_libyaml::yaml_parser_delete, parser_delete_probe)]
fn parser_drop_releases_parser_and_read_state() { parser_drop_body(); }

/// The same scenario under CBMC's memory-leak check (run in an invocation of its own with `--cbmc-args --memory-leak-check`):
/// after the Parser is dropped no heap block it owned is left allocated -- the ReadState box is FREED, not merely
/// destructed in place.
#[kani::proof]
#[kani::unwind(3)]
#[kani::stub(unsafe_libyaml::yaml_parser_delete, parser_delete_probe)]
fn parser_drop_frees_every_block() { parser_drop_body(); }

fn parser_drop_body() {
	let read_state = Box::into_raw(Box::new(ReadState { reader: DropProbeReader, bouncer: Vec::with_capacity(1), error: None }));
	let raw: Box<yaml_parser_t> = unsafe { Box::new(MaybeUninit::<yaml_parser_t>::zeroed().assume_init()) };
	let p = Parser { parser: raw, read_state };
	drop(p);
	assert!(unsafe { PARSER_DELETES } == 1, "yaml_parser_delete must run exactly once");
	assert!(unsafe { READER_DROPS } == 1, "the read state (and the reader in it) must be released exactly once with the parser");
	// order: libyaml's parser holds a raw pointer to the read state (its read handler's data argument), so the parser has to
	// go first; freeing the read state first leaves that pointer dangling while yaml_parser_delete runs (and leaks the
	// parser if the reader's destructor unwinds)
	assert!(unsafe { !READ_STATE_FREED_BEFORE_PARSER_DELETE }, "the read state was freed while the libyaml parser that points to it was still alive");
}

/// C11 (position of a YAML error) / C04: `LocatedError::from_parts` for EVERY mark and override:
/// line and column are libyaml's zero-based values plus one; the byte offset is the mark's index when libyaml set one
/// (index > 0), otherwise the separately reported problem offset (reader errors: invalid UTF-8 octet, control
/// character -- libyaml leaves their mark at zero), otherwise 0.  Precondition: line, column < u64::MAX (libyaml counts
/// bytes of an in-memory stream).  Complete: loop-free, full-domain symbolic inputs.
#[kani::proof]
fn located_error_from_parts_contract() {
	let index: u64 = kani::any();
	let line: u64 = kani::any();
	let column: u64 = kani::any();
	kani::assume(line < u64::MAX && column < u64::MAX);
	let over: Option<u64> = kani::any();
	// (yaml_mark_t is #[non_exhaustive]: three plain u64 fields, built from zeroes)
	let mut mark: yaml_mark_t = unsafe { std::mem::zeroed() };
	mark.index = index; mark.line = line; mark.column = column;
	let e = LocatedError::from_parts(String::new(), mark, over);
	assert!(e.line == line + 1 && e.column == column + 1);
	if index > 0 {
		assert!(e.offset == index, "libyaml's own mark is the position");
	} else {
		match over {
			Some(o) => assert!(e.offset == o, "a reader error is located by its problem offset"),
			None => assert!(e.offset == 0),
		}
	}
	kani::cover!(index == 0 && over.is_some() && e.offset > 0, "reader error located by its override offset");
	kani::cover!(index > 0 && over.is_some(), "mark wins over the override");
}

static mut ENC_CALLS: u8 = 0;
static mut ENC_IS_UTF8: bool = false;
static mut ENC_PARSER: *mut yaml_parser_t = ptr::null_mut();
static mut INPUT_CALLS: u8 = 0;
static mut INPUT_DATA: *mut c_void = ptr::null_mut();
static mut INPUT_PARSER: *mut yaml_parser_t = ptr::null_mut();
static mut ENCODING_SET_BEFORE_INPUT: bool = false;
pub(crate) unsafe fn set_encoding_probe(parser: *mut yaml_parser_t, encoding: unsafe_libyaml::yaml_encoding_t) {
	unsafe { ENC_CALLS += 1; ENC_PARSER = parser; ENC_IS_UTF8 = matches!(encoding, unsafe_libyaml::yaml_encoding_t::YAML_UTF8_ENCODING); }
}
pub(crate) unsafe fn set_input_probe(parser: *mut yaml_parser_t, _handler: unsafe_libyaml::yaml_read_handler_t, data: *mut c_void) {
	unsafe { INPUT_CALLS += 1; INPUT_PARSER = parser; INPUT_DATA = data; ENCODING_SET_BEFORE_INPUT = ENC_CALLS == 1; }
}
/// C04 / C03 (the chunker's offsets): `Parser::new` configures the libyaml parser it created -- the stream encoding is
/// FIXED to UTF-8 (xt always hands libyaml UTF-8; with libyaml's own detection a UTF-8 BOM is skipped without being
/// counted in the marks, which shifts every cut offset of the chunker and ends in `String::from_utf8(..).unwrap()`
/// panicking), exactly once and before the input handler is installed; the handler's data pointer is the read state the
/// Parser keeps; both calls go to the parser object the Parser keeps.  yaml_parser_initialize is the real one.
#[kani::proof]
#[kani::unwind(3)]
#[kani::stub(unsafe_libyaml::yaml_parser_set_encoding, set_encoding_probe)]
#[kani::stub(unsafe_libyaml::yaml_parser_set_input, set_input_probe)]
fn parser_new_configures_libyaml() {
	let mut p = Parser::new(DropProbeReader);
	let pp: *mut yaml_parser_t = &mut *p.parser;
	assert!(unsafe { ENC_CALLS } == 1 && unsafe { ENC_IS_UTF8 }, "the stream encoding must be fixed to UTF-8, once");
	assert!(unsafe { INPUT_CALLS } == 1 && unsafe { ENCODING_SET_BEFORE_INPUT }, "one input handler, installed after the encoding was fixed");
	assert!(unsafe { ENC_PARSER } == pp && unsafe { INPUT_PARSER } == pp, "both calls configure the parser object the Parser keeps");
	assert!(unsafe { INPUT_DATA } == p.read_state.cast::<c_void>(), "libyaml's data pointer is the read state the Parser owns");
	std::mem::forget(p);
}
