// U-PRS: contract harness for the unsafe libyaml read callback in src/yaml/chunker/parser.rs
// (child module `yaml::chunker::parser::verif_kani`).
use super::*;

/// A reader that may lie: returns any Ok(n) (even n > buf.len()) or an error, and writes arbitrary bytes
/// into the part of buf it really owns.
struct AnyReader { lied: bool, failed: bool }
impl Read for AnyReader {
	fn read(&mut self, buf: &mut [u8]) -> io::Result<usize> {
		if kani::any() { self.failed = true; return Err(io::ErrorKind::ConnectionReset.into()); }
		let mut i = 0;
		while i < buf.len() { buf[i] = kani::any(); i += 1; }
		let n: usize = kani::any();
		if n > buf.len() { self.lied = true; }
		Ok(n)
	}
}

const CAP: usize = 4;
const CANARY: u8 = 0xAA;

fn read_handler_step<const C: usize, const TOTAL: usize>() {
	// arbitrary pre-state: the bounce buffer is whatever an earlier call left behind (any length up to
	// TOTAL, i.e. possibly LARGER than the buffer libyaml offers now), and an earlier error may be stashed
	let mut bouncer = Vec::with_capacity(TOTAL);
	let pre: usize = kani::any();
	kani::assume(pre <= TOTAL);
	let mut i = 0; while i < pre { bouncer.push(0x55u8); i += 1; }
	let error = if kani::any() { Some(io::Error::from(io::ErrorKind::Other)) } else { None };
	let state = Box::into_raw(Box::new(ReadState { reader: AnyReader { lied: false, failed: false }, bouncer, error }));
	// libyaml's buffer is the first `cap` bytes of `dest`; the bytes behind it are a canary (any write
	// beyond buffer_size is an out-of-bounds write in the real parser)
	let mut dest = [CANARY; TOTAL];
	let cap: u64 = kani::any();
	kani::assume(cap as usize <= C);
	let mut size_read: u64 = 77;
	let rc = unsafe {
		Parser::<AnyReader>::read_handler(state.cast::<c_void>(), dest.as_mut_ptr(), cap, &mut size_read)
	};
	let st = unsafe { Box::from_raw(state) };
	// nothing beyond the buffer libyaml handed us is ever written
	let mut j = cap as usize;
	while j < TOTAL { assert!(dest[j] == CANARY, "write beyond buffer_size"); j += 1; }
	if rc == 1 {
		assert!(size_read <= cap, "READ_SUCCESS reports at most buffer_size bytes");
		assert!(st.error.is_none());
		assert!(!st.reader.failed && !st.reader.lied, "success only for an honest, successful read");
		let mut i = 0;
		while i < size_read as usize { assert!(dest[i] == st.bouncer[i], "libyaml receives exactly what the reader produced"); i += 1; }
		let mut j = size_read as usize;
		while j < cap as usize { assert!(dest[j] == CANARY, "bytes beyond size_read untouched"); j += 1; }
		kani::cover!(size_read == cap && cap > 0);
		kani::cover!(pre > cap as usize, "bounce buffer was larger than the buffer offered now");
		kani::cover!(size_read == 0 && cap > 0, "EOF");
	} else {
		assert!(rc == 0);
		assert!(st.error.is_some(), "READ_FAILURE always stashes the error for next_event");
		assert!(st.reader.failed || st.reader.lied);
		assert!(size_read == 77, "size_read untouched on failure");
		let mut j = 0;
		while j < TOTAL { assert!(dest[j] == CANARY, "destination untouched on failure"); j += 1; }
		if st.reader.failed { assert!(st.error.as_ref().unwrap().kind() == io::ErrorKind::ConnectionReset, "the reader's own error is kept"); }
		kani::cover!(st.reader.lied, "over-reporting reader is refused");
		kani::cover!(st.reader.failed, "reader error is stashed");
	}
}

#[kani::proof]
#[kani::unwind(8)]
fn read_handler_contract() { read_handler_step::<4, 6>(); }

#[kani::proof]
#[kani::unwind(12)]
fn read_handler_contract_big() { read_handler_step::<8, 10>(); }

/// Degenerate arguments: null pointers are refused without touching anything.
#[kani::proof]
#[kani::unwind(3)]
fn read_handler_null_arguments() {
	let state = Box::into_raw(Box::new(ReadState { reader: AnyReader { lied: false, failed: false }, bouncer: vec![], error: None }));
	let mut dest = [CANARY; 2];
	let mut size_read: u64 = 77;
	let which: u8 = kani::any(); kani::assume(which < 3);
	let rc = unsafe {
		match which {
			0 => Parser::<AnyReader>::read_handler(std::ptr::null_mut(), dest.as_mut_ptr(), 2, &mut size_read),
			1 => Parser::<AnyReader>::read_handler(state.cast::<c_void>(), std::ptr::null_mut(), 2, &mut size_read),
			_ => Parser::<AnyReader>::read_handler(state.cast::<c_void>(), dest.as_mut_ptr(), 2, std::ptr::null_mut()),
		}
	};
	let st = unsafe { Box::from_raw(state) };
	assert!(rc == 0 && size_read == 77 && dest[0] == CANARY && dest[1] == CANARY && st.bouncer.is_empty());
}
