// U-EXT: contract harnesses for the extension table of the CLI, src/main.rs (bin target, child module `verif_kani`).
use super::*;
use std::os::unix::ffi::OsStrExt;
use std::ffi::OsStr;

static mut EXT: [u8; 7] = [0; 7];
static mut EXT_LEN: usize = 0;
static mut EXT_SOME: bool = false;

// Assumed contract of std::path::Path::extension: None, or some OsStr (the last extension).
fn ext_stub(_p: &Path) -> Option<&OsStr> {
	unsafe {
		if EXT_SOME { let r: &[u8; 7] = &*std::ptr::addr_of!(EXT); Some(OsStr::from_bytes(&r[..EXT_LEN])) } else { None }
	}
}

fn code(f: Option<Format>) -> Option<u8> { f.map(|f| match f { Format::Json => 0u8, Format::Msgpack => 1, Format::Toml => 2, Format::Yaml => 3, _ => 9 }) }

/// extension_format == table(ascii_lowercase(ext)) for whatever Path::extension returns: every byte string
/// of length 0..=7 (so every letter-case spelling of json / msgpack / toml / yaml / yml and every near miss).
#[kani::proof]
#[kani::unwind(9)]
#[kani::stub(std::path::Path::extension, ext_stub)]
fn extension_table() {
	let ext: [u8; 7] = kani::any();
	let n: usize = kani::any();
	kani::assume(n <= 7);
	let some: bool = kani::any();
	unsafe { EXT = ext; EXT_LEN = n; EXT_SOME = some; }
	let p = InputPath::File(PathBuf::from("x"));
	let got = code(p.extension_format());
	std::mem::forget(p);
	let l = |i: usize| ext[i].to_ascii_lowercase();
	let is = |w: &[u8]| -> bool { if n != w.len() { return false; } let mut i = 0; while i < w.len() { if l(i) != w[i] { return false; } i += 1; } true };
	let want = if !some { None } else if is(b"json") { Some(0u8) } else if is(b"msgpack") { Some(1) } else if is(b"toml") { Some(2) } else if is(b"yaml") || is(b"yml") { Some(3) } else { None };
	assert!(got == want);
	kani::cover!(got == Some(1)); kani::cover!(got == Some(3) && n == 3 && ext[0] == b'Y'); kani::cover!(some && got.is_none());
}

#[kani::proof]
fn extension_of_stdin_is_none() {
	assert!(InputPath::Stdin.extension_format().is_none());
}

/// try_parse_format: the documented names and one-letter aliases, nothing else (all strings of <= 3 bytes + the four long names).
#[kani::proof]
#[kani::unwind(9)]
fn format_names_table() {
	let b: [u8; 3] = kani::any();
	let n: usize = kani::any(); kani::assume(n <= 3);
	if let Ok(s) = std::str::from_utf8(&b[..n]) {
		let got = try_parse_format(s).ok().map(Some).map(code).flatten();
		let want = if s == "j" { Some(0) } else if s == "m" { Some(1) } else if s == "t" { Some(2) } else if s == "y" { Some(3) } else { None };
		assert!(got == want);
	}
	assert!(code(try_parse_format("json").ok()) == Some(0) && code(try_parse_format("msgpack").ok()) == Some(1));
	assert!(code(try_parse_format("toml").ok()) == Some(2) && code(try_parse_format("yaml").ok()) == Some(3));
	assert!(try_parse_format("yml").is_err() && try_parse_format("JSON").is_err());
}

// (An attempt to drive main() itself under Kani -- stubbing Cli::parse_args, InputPath::open, the extension table,
// process::exit and the library's Translator::translate_* entry points -- failed: Kani 0.68 refuses to stub the generic
// methods of xt::Translator<W> from the bin crate ("Expected type `&mut xt::Translator<W>` ... but found `&mut
// xt::Translator<W>`"), and without those stubs main() reaches file-descriptor I/O.  The per-input precedence
// `-f` > extension > detection inside main() therefore stays outside the contracts; see DESIGN 12.8.)

// (Cli::parse_args on the REAL lexopt parser -- lexopt::Parser::from_env stubbed by a parser over a scripted argument
// vector, process::exit by a diverging marker -- was tried with symbolic and with enumerated concrete command lines and
// dropped: a single concrete two-argument command line does not finish symbolic execution in 15 minutes (UTF-8
// validation, memrchr and error formatting inside lexopt / OsString).  parse_args is under a Verus contract instead
// (U-MAIN-V, lexopt as a stand-in).)
