// U-DET: contract harnesses for src/detect.rs (child module `detect::verif_kani`).
// The four trial parsers are replaced by stubs that return any outcome (assumed contract of a
// trial: it returns Ok(true) / Ok(false) / Err and may read from the borrowed input).
use super::*;
use crate::input::Ref;
use std::io::Read;

// outcome per trial: 0 = Ok(false), 1 = Ok(true), 2 = Err
static mut OUTCOME: [u8; 4] = [0; 4];
static mut CALLS: [u8; 4] = [0; 4];
static mut ORDER_OK: bool = true;
static mut NEXT: usize = 0;
static mut READ_SOME: bool = false;
static mut REWOUND_OK: bool = true;
static mut SAW_READER: u8 = 0;
static mut SAW_SLICE: u8 = 0;

static mut DATA: [u8; 3] = [0; 3];

fn trial(i: usize, r: Ref) -> io::Result<bool> {
	unsafe {
		if NEXT != i { ORDER_OK = false; }
		NEXT = i + 1;
		CALLS[i] += 1;
		if READ_SOME {
			// every trial must see the input from its first byte again, whatever earlier trials consumed
			match r {
				Ref::Slice(b) => { SAW_SLICE += 1; if b.len() != 3 || b[0] != DATA[0] || b[2] != DATA[2] { REWOUND_OK = false; } }
				Ref::Reader(rd) => {
					SAW_READER += 1;
					let mut one = [0u8; 2];
					let want: usize = if i == 1 { 2 } else { 1 };
					match rd.read(&mut one[..want]) {
						Ok(n) => { if n == 0 || one[0] != DATA[0] || (n == 2 && one[1] != DATA[1]) { REWOUND_OK = false; } }
						Err(_) => { REWOUND_OK = false; }
					}
				}
			}
		}
		match OUTCOME[i] { 0 => Ok(false), 1 => Ok(true), _ => Err(io::ErrorKind::Other.into()) }
	}
}
fn mp(r: Ref) -> io::Result<bool> { trial(0, r) }
fn js(r: Ref) -> io::Result<bool> { trial(1, r) }
fn ym(r: Ref) -> io::Result<bool> { trial(2, r) }
fn tm(r: Ref) -> io::Result<bool> { trial(3, r) }

fn check_result(o: [u8; 4], r: io::Result<Option<Format>>) {
	// first trial that is not Ok(false)
	let mut first = 4; let mut i = 0;
	while i < 4 { if o[i] != 0 && first == 4 { first = i; } i += 1; }
	assert!(unsafe { ORDER_OK });
	match r {
		Ok(None) => { assert!(first == 4); kani::cover!(true, "no format matched"); }
		Ok(Some(f)) => {
			let idx = match f { Format::Msgpack => 0, Format::Json => 1, Format::Yaml => 2, Format::Toml => 3 };
			assert!(first == idx && o[idx] == 1);
			kani::cover!(idx == 0, "msgpack selected");
			kani::cover!(idx == 3, "toml selected last");
		}
		Err(_) => { assert!(first < 4 && o[first] == 2); kani::cover!(first == 2, "error from third trial propagates"); }
	}
	// no trial after the deciding one ran; each earlier one ran exactly once
	let mut j = 0;
	while j < 4 { let c = unsafe { CALLS[j] }; if j <= first && j < 4 { assert!(c == 1); } else { assert!(c == 0); } j += 1; }
}

/// detect_format returns the FIRST format (order MessagePack, JSON, YAML, TOML) whose trial said
/// Ok(true); None iff all said Ok(false); Err iff a trial failed before any Ok(true); no trial
/// runs after the deciding one.  Complete over all 3^4 stub outcomes.
#[kani::proof]
#[kani::unwind(5)]
#[kani::stub(crate::msgpack::input_matches, mp)]
#[kani::stub(crate::json::input_matches, js)]
#[kani::stub(crate::yaml::input_matches, ym)]
#[kani::stub(crate::toml::input_matches, tm)]
fn detect_order_and_totality() {
	let o: [u8; 4] = kani::any();
	kani::assume(o[0] < 3 && o[1] < 3 && o[2] < 3 && o[3] < 3);
	unsafe { OUTCOME = o; }
	let data = [0u8; 2];
	let mut h = input::Handle::from_slice(&data);
	let r = detect_format(&mut h);
	check_result(o, r);
}

/// Reader-backed handle, all four trials run (each says "not mine") and each consumes a different number of
/// bytes: every trial gets a freshly rewound borrow, i.e. sees the stream from byte 0 again (stream contents
/// symbolic; the trial outcomes are fixed because the full outcome matrix is covered by the harness above and
/// the combination with a real capture reader behind Box<dyn Read> exhausts CBMC's memory).
#[kani::proof]
#[kani::unwind(5)]
#[kani::stub(crate::msgpack::input_matches, mp)]
#[kani::stub(crate::json::input_matches, js)]
#[kani::stub(crate::yaml::input_matches, ym)]
#[kani::stub(crate::toml::input_matches, tm)]
fn detect_trials_get_rewound_reader() {
	let data: [u8; 3] = kani::any();
	unsafe { OUTCOME = [0, 0, 0, 0]; READ_SOME = true; DATA = data; }
	let mut h = input::Handle::from_reader(&data[..]);
	let r = detect_format(&mut h);
	assert!(unsafe { REWOUND_OK }, "a trial did not see the stream from its first byte");
	assert!(matches!(r, Ok(None)));
	assert!(unsafe { SAW_READER } + unsafe { SAW_SLICE } == 4);
	kani::cover!(unsafe { SAW_READER } >= 2, "at least two trials read from the reader");
	std::mem::forget(r);
}
