// U-DET: contract harnesses for src/detect.rs (child module `detect::verif_kani`).
// The four trial parsers are replaced by stubs that return any outcome (assumed contract of a
// trial: it returns Ok(true) / Ok(false) / Err and may read from the borrowed input).
use super::*;
use crate::input::Ref;

// outcome per trial: 0 = Ok(false), 1 = Ok(true), 2 = Err
static mut OUTCOME: [u8; 4] = [0; 4];
static mut CALLS: [u8; 4] = [0; 4];
static mut ORDER_OK: bool = true;
static mut NEXT: usize = 0;

fn trial(i: usize, _r: Ref) -> io::Result<bool> {
	unsafe {
		if NEXT != i { ORDER_OK = false; }
		NEXT = i + 1;
		CALLS[i] += 1;
		match OUTCOME[i] { 0 => Ok(false), 1 => Ok(true), _ => Err(io::ErrorKind::Other.into()) }
	}
}
fn mp(r: Ref) -> io::Result<bool> { trial(0, r) }
fn js(r: Ref) -> io::Result<bool> { trial(1, r) }
fn ym(r: Ref) -> io::Result<bool> { trial(2, r) }
fn tm(r: Ref) -> io::Result<bool> { trial(3, r) }

fn check_result(o: [u8; 4], r: io::Result<Option<Format>>) {
	// first trial that is not Ok(false)
	let mut first = 4; let mut i = 0;
	while i < 4 { if o[i] != 0 && first == 4 { first = i; } i += 1; }
	assert!(unsafe { ORDER_OK });
	match r {
		Ok(None) => { assert!(first == 4); kani::cover!(true, "no format matched"); }
		Ok(Some(f)) => {
			let idx = match f { Format::Msgpack => 0, Format::Json => 1, Format::Yaml => 2, Format::Toml => 3 };
			assert!(first == idx && o[idx] == 1);
			kani::cover!(idx == 0, "msgpack selected");
			kani::cover!(idx == 3, "toml selected last");
		}
		Err(_) => { assert!(first < 4 && o[first] == 2); kani::cover!(first == 2, "error from third trial propagates"); }
	}
	// no trial after the deciding one ran; each earlier one ran exactly once
	let mut j = 0;
	while j < 4 { let c = unsafe { CALLS[j] }; if j <= first && j < 4 { assert!(c == 1); } else { assert!(c == 0); } j += 1; }
}

/// detect_format returns the FIRST format (order MessagePack, JSON, YAML, TOML) whose trial said
/// Ok(true); None iff all said Ok(false); Err iff a trial failed before any Ok(true); no trial
/// runs after the deciding one.  Complete over all 3^4 stub outcomes.
#[kani::proof]
#[kani::unwind(5)]
#[kani::stub(crate::msgpack::input_matches, mp)]
#[kani::stub(crate::json::input_matches, js)]
#[kani::stub(crate::yaml::input_matches, ym)]
#[kani::stub(crate::toml::input_matches, tm)]
fn detect_order_and_totality() {
	let o: [u8; 4] = kani::any();
	kani::assume(o[0] < 3 && o[1] < 3 && o[2] < 3 && o[3] < 3);
	unsafe { OUTCOME = o; }
	let data = [0u8; 2];
	let mut h = input::Handle::from_slice(&data);
	let r = detect_format(&mut h);
	check_result(o, r);
}

