// U-VAL: contract harnesses for the borrowed Value used for JSON slice input, src/transcode/value.rs
// (child module `transcode::value::verif_kani`).
use super::*;
use serde::de::Visitor as DeVisitor;
use serde::forward_to_deserialize_any;
include!("serde_mocks.rs");
use mocks::*;

// NOTE: composite fidelity of transcode::Value (sequence order, key/value alternation through Vec<(Value, Value)>)
// is NOT under contract: Value::deserialize of even a one-element sequence exceeds CBMC's reach (recursive
// Deserialize through PhantomData seeds + Vec<Value> growth: > 200 s / > 7 GB for the shape [bool]).  The scalar
// contract below is complete; the composite obligation is listed as not covered in the evidence.

/// A deserializer that presents exactly one scalar through a chosen visit_* method.
struct ScalarDe<'a> { which: u8, bits: u128, text: &'a str, raw: &'a [u8] }
impl<'de> Deserializer<'de> for ScalarDe<'de> {
	type Error = DeErr;
	fn deserialize_any<V: DeVisitor<'de>>(self, v: V) -> Result<V::Value, DeErr> {
		let b = self.bits;
		match self.which {
			1 => v.visit_bool(b != 0),
			2 => v.visit_i8(b as u8 as i8), 3 => v.visit_i16(b as u16 as i16), 4 => v.visit_i32(b as u32 as i32),
			5 => v.visit_i64(b as u64 as i64), 6 => v.visit_i128(b as i128),
			7 => v.visit_u8(b as u8), 8 => v.visit_u16(b as u16), 9 => v.visit_u32(b as u32), 10 => v.visit_u64(b as u64), 11 => v.visit_u128(b),
			12 => v.visit_f32(f32::from_bits(b as u32)), 13 => v.visit_f64(f64::from_bits(b as u64)),
			14 => v.visit_char(char::from_u32(b as u32).unwrap_or('x')),
			15 => v.visit_borrowed_str(self.text), 18 => v.visit_str(self.text), 19 => v.visit_string(String::from(self.text)),
			_ => v.visit_unit(),
		}
	}
	forward_to_deserialize_any! {
		bool i8 i16 i32 i64 i128 u8 u16 u32 u64 u128 f32 f64 char str string
		bytes byte_buf option unit unit_struct newtype_struct seq tuple
		tuple_struct map struct enum identifier ignored_any
	}
}

/// Every scalar kind keeps its own type and its bit-identical value through Value (all integer widths,
/// both float widths via to_bits, char, unit; the three string visit forms arrive as
/// serialize_str with equal length and, for the borrowed form, the same pointer).  The bytes forms are NOT
/// part of the obligation: Value::Bytes serializes through `[u8]`, i.e. as a sequence of u8 -- outside the
/// common data model of C01 and never produced by serde_json, the only deserializer Value is used with.
#[kani::proof]
#[kani::unwind(5)]
fn value_scalar_types_and_bits_kept() {
	let which: u8 = kani::any();
	kani::assume(which >= 1 && which <= 19 && which != 16);
	let bits: u128 = kani::any();
	let text = "h\u{e9}";
	let raw = [9u8, 8, 7];
	let v = match Value::deserialize(ScalarDe { which, bits, text, raw: &raw }) { Ok(v) => v, Err(_) => { assert!(false); return; } };
	let r = v.serialize(RecSer { fail: false });
	assert!(r.is_ok());
	std::mem::forget(v);
	let (want_kind, want_bits): (u8, u128) = match which {
		1 => (1, (bits != 0) as u128), 2 => (2, bits as u8 as u128), 3 => (3, bits as u16 as u128), 4 => (4, bits as u32 as u128),
		5 => (5, bits as u64 as u128), 6 => (6, bits), 7 => (7, bits as u8 as u128), 8 => (8, bits as u16 as u128), 9 => (9, bits as u32 as u128),
		10 => (10, bits as u64 as u128), 11 => (11, bits), 12 => (12, bits as u32 as u128), 13 => (13, bits as u64 as u128),
		14 => (14, char::from_u32(bits as u32).unwrap_or('x') as u32 as u128),
		15 | 18 | 19 => (15, text.len() as u128),
		_ => (17, 0),
	};
	unsafe {
		assert!(REC_CALLS == 1);
		assert!(REC_KIND == want_kind, "value re-typed on its way through transcode::Value");
		assert!(REC_BITS == want_bits, "value changed on its way through transcode::Value");
		if which == 15 { assert!(REC_PTR == text.as_ptr(), "borrowed string is not copied"); }
	}
	kani::cover!(which == 13); kani::cover!(which == 11); kani::cover!(which == 19); kani::cover!(which == 17);
}

