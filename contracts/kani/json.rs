// U-JSN: contract harness for the result mapping of json::input_matches (src/json.rs, child module `json::verif_kani`).
// The serde_json trial is replaced by its assumed contract: Ok, an I/O-category error (the source failed),
// or a syntax / data / EOF-category error.
use super::*;

static mut SOURCE_FAILED: bool = false;
static mut TRIAL_RAN: u8 = 0;
// the trial outcome is fixed per harness (one #[kani::proof] per outcome): a serde_json::Error whose kind is
// symbolic would have to be dropped with symbolic contents inside input_matches, which CBMC cannot afford
static mut OUTCOME: u8 = 0;

fn trial_result() -> Result<(), serde_json::Error> {
	unsafe { TRIAL_RAN += 1; }
	let k: u8 = unsafe { OUTCOME };
	match k {
		0 => Ok(()),
		1 => { unsafe { SOURCE_FAILED = true; } Err(serde_json::Error::io(io::ErrorKind::ConnectionReset.into())) }
		// a syntax / data / EOF-category error: built through the only cheap public constructor and told apart by
		// the stubbed is_io() below (serde_json's own constructors for these categories format messages)
		_ => { unsafe { LAST_IS_IO = false; } Err(serde_json::Error::io(io::ErrorKind::InvalidData.into())) }
	}
}
static mut LAST_IS_IO: bool = true;
fn is_io_contract(_e: &serde_json::Error) -> bool { unsafe { LAST_IS_IO } }
fn str_stub(_input: &str) -> Result<(), serde_json::Error> { trial_result() }
fn reader_stub<R: Read>(_input: R) -> Result<(), serde_json::Error> { trial_result() }

fn json_mapping(outcome: u8) {
	unsafe { OUTCOME = outcome; }
	let b: [u8; 3] = kani::any();
	let n: usize = kani::any(); kani::assume(n <= 3);
	let r = input_matches(Ref::Slice(&b[..n]));
	let utf8 = std::str::from_utf8(&b[..n]).is_ok();
	match &r {
		Ok(true) => assert!(utf8 && unsafe { TRIAL_RAN } == 1 && !unsafe { SOURCE_FAILED }),
		Ok(false) => assert!(!unsafe { SOURCE_FAILED }),
		Err(_) => assert!(unsafe { SOURCE_FAILED }, "detection failed although the source never reported an error"),
	}
	if !utf8 { assert!(matches!(r, Ok(false)) && unsafe { TRIAL_RAN } == 0); }
	if unsafe { SOURCE_FAILED } { assert!(r.is_err(), "an I/O fault was swallowed as 'not JSON'"); }
	kani::cover!(utf8 && unsafe { TRIAL_RAN } == 1, "trial ran");
	std::mem::forget(r);
}

#[kani::proof]
#[kani::unwind(5)]
#[kani::stub(match_input_str, str_stub)]
#[kani::stub(match_input_reader, reader_stub)]
#[kani::stub(serde_json::Error::is_io, is_io_contract)]
fn json_input_matches_mapping_ok() { json_mapping(0); }

#[kani::proof]
#[kani::unwind(5)]
#[kani::stub(match_input_str, str_stub)]
#[kani::stub(match_input_reader, reader_stub)]
#[kani::stub(serde_json::Error::is_io, is_io_contract)]
fn json_input_matches_mapping_io_error() { json_mapping(1); }

#[kani::proof]
#[kani::unwind(5)]
#[kani::stub(match_input_str, str_stub)]
#[kani::stub(match_input_reader, reader_stub)]
#[kani::stub(serde_json::Error::is_io, is_io_contract)]
fn json_input_matches_mapping_syntax_error() { json_mapping(2); }

// Non-I/O trial outcomes with REAL serde_json errors: the stub runs the real parser on a concrete one-token text, so
// the error is a genuine Syntax- / Eof-category error (unit ErrorCode variants, cheap to drop) and is_io() / is_eof()
// are serde_json's own.  "a candidate format that runs out of input or meets a syntax error is simply skipped".
static mut REAL_TEXT_EMPTY: bool = false;
fn real_error() -> Result<(), serde_json::Error> {
	unsafe { TRIAL_RAN += 1; }
	// (reader front end: serde_json's str / slice front ends locate error positions with memchr, whose CPU feature
	// detection is inline assembly that Kani cannot execute)
	let text: &[u8] = if unsafe { REAL_TEXT_EMPTY } { b"" } else { b"!" };
	let mut de = serde_json::Deserializer::from_reader(text);
	de::IgnoredAny::deserialize(&mut de).and(Ok(()))
}
fn str_real(_input: &str) -> Result<(), serde_json::Error> { real_error() }
fn reader_real<R: Read>(_input: R) -> Result<(), serde_json::Error> { real_error() }
fn json_mapping_real(empty: bool) {
	unsafe { REAL_TEXT_EMPTY = empty; }
	let b = [b'a', b'b'];
	let r = input_matches(Ref::Slice(&b));
	assert!(unsafe { TRIAL_RAN } == 1);
	assert!(matches!(r, Ok(false)), "a candidate that runs out of input or meets a syntax error must simply be skipped");
	std::mem::forget(r);
}
#[kani::proof]
#[kani::unwind(5)]
#[kani::stub(match_input_str, str_real)]
#[kani::stub(match_input_reader, reader_real)]
fn json_input_matches_real_syntax_error_is_skipped() { json_mapping_real(false); }
#[kani::proof]
#[kani::unwind(5)]
#[kani::stub(match_input_str, str_real)]
#[kani::stub(match_input_reader, reader_real)]
fn json_input_matches_real_eof_error_is_skipped() { json_mapping_real(true); }


// ---- U-JSN framing: one line per document (C03), writer faults surface (C12) --------------------------
// (transcode_from cannot be treated the same way: transcode::stream::Error is private to the transcode module, so
// no stub with transcode()'s signature can be written from here.)
// The serializer work itself (serde_json::to_writer) is replaced by a stub that writes
// a marker byte through the serializer's writer and returns Ok or Err: the contract is about what json::Output
// adds around it.

#[derive(Debug)]
struct FErr;
impl std::fmt::Display for FErr { fn fmt(&self, _: &mut std::fmt::Formatter) -> std::fmt::Result { Ok(()) } }
impl std::error::Error for FErr {}
impl de::Error for FErr { fn custom<T: std::fmt::Display>(_: T) -> Self { FErr } }
struct NeverDe;
impl<'de> de::Deserializer<'de> for NeverDe {
	type Error = FErr;
	fn deserialize_any<V: de::Visitor<'de>>(self, _v: V) -> Result<V::Value, FErr> { unreachable!() }
	serde::forward_to_deserialize_any! {
		bool i8 i16 i32 i64 i128 u8 u16 u32 u64 u128 f32 f64 char str string
		bytes byte_buf option unit unit_struct newtype_struct seq tuple
		tuple_struct map struct enum identifier ignored_any
	}
}

// writer log: 'D' = the document body was written, then every byte of the framing text
static mut WLOG: [u8; 8] = [0; 8];
static mut WPOS: usize = 0;
static mut BODY_FAILS: bool = false;
static mut WRITER_FAILS_AT: usize = 99;
fn wlog(b: u8) -> io::Result<()> {
	unsafe {
		if WPOS >= WRITER_FAILS_AT { return Err(io::ErrorKind::StorageFull.into()); }
		if WPOS < 8 { WLOG[WPOS] = b; }
		WPOS += 1;
		Ok(())
	}
}

// Executable statement of core::fmt::write's contract for literal-only arguments (the only kind the framing code
// uses): the text is written to the sink.  Keeps the harnesses decidable when a writer does NOT override write_fmt
// (std's default goes through the formatting machinery, which CBMC cannot afford).
fn fmt_write_literal(output: &mut dyn std::fmt::Write, args: std::fmt::Arguments<'_>) -> std::fmt::Result {
	match args.as_str() { Some(s) => output.write_str(s), None => { assert!(false, "framing text is not a literal"); Ok(()) } }
}
struct LogW;
impl Write for LogW {
	fn write(&mut self, buf: &[u8]) -> io::Result<usize> { let mut i = 0; while i < buf.len() { wlog(buf[i])?; i += 1; } Ok(buf.len()) }
	fn write_all(&mut self, buf: &[u8]) -> io::Result<()> { let mut i = 0; while i < buf.len() { wlog(buf[i])?; i += 1; } Ok(()) }
	fn write_fmt(&mut self, args: std::fmt::Arguments<'_>) -> io::Result<()> {
		match args.as_str() { Some(s) => self.write_all(s.as_bytes()), None => { assert!(false, "framing text is not a literal"); Ok(()) } }
	}
	fn flush(&mut self) -> io::Result<()> { Ok(()) }
}

fn to_writer_stub<W: Write, T: ?Sized + ser::Serialize>(mut w: W, _value: &T) -> serde_json::Result<()> {
	if unsafe { BODY_FAILS } { return Err(serde_json::Error::io(io::ErrorKind::InvalidData.into())); }
	match w.write_all(b"D") { Ok(()) => Ok(()), Err(e) => Err(serde_json::Error::io(e)) }
}

fn framing_value(body_fails: bool, fail_at: usize) {
	unsafe { BODY_FAILS = body_fails; WRITER_FAILS_AT = fail_at; }
	let mut out = Output::new(LogW);
	let r = crate::Output::transcode_value(&mut out, 7u8);
	let ok = r.is_ok();
	std::mem::forget(r);
	std::mem::forget(out); // no destructor work under CBMC (a buffering wrapper inside Output would flush here)
	unsafe {
		if body_fails { assert!(!ok && WPOS == 0, "a failed document must not be framed"); }
		else if fail_at >= 2 { assert!(ok); assert!(WPOS == 2 && WLOG[0] == b'D' && WLOG[1] == b'\n', "JSON output is the document followed by exactly one newline"); }
		else { assert!(!ok, "a writer fault was swallowed"); assert!(WPOS == fail_at); }
	}
}
#[kani::proof]
#[kani::unwind(4)]
#[kani::stub(serde_json::to_writer, to_writer_stub)]
#[kani::stub(core::fmt::write, fmt_write_literal)]
fn json_output_value_framing_ok() { framing_value(false, 99); }
#[kani::proof]
#[kani::unwind(4)]
#[kani::stub(serde_json::to_writer, to_writer_stub)]
#[kani::stub(core::fmt::write, fmt_write_literal)]
fn json_output_value_framing_body_fails() { framing_value(true, 99); }
#[kani::proof]
#[kani::unwind(4)]
#[kani::stub(serde_json::to_writer, to_writer_stub)]
#[kani::stub(core::fmt::write, fmt_write_literal)]
fn json_output_value_framing_newline_write_fails() { framing_value(false, 1); }


// ---- transcode_from through the REAL transcoder and the REAL serde_json serializer, for documents whose
// serialization is a single literal write (null / true / false) ------------------------------------------
struct OneEventDe { kind: u8 }
impl<'de> de::Deserializer<'de> for OneEventDe {
	type Error = FErr;
	fn deserialize_any<V: de::Visitor<'de>>(self, v: V) -> Result<V::Value, FErr> {
		match self.kind { 0 => Err(FErr), 1 => v.visit_unit(), 2 => v.visit_bool(true), _ => v.visit_bool(false) }
	}
	serde::forward_to_deserialize_any! {
		bool i8 i16 i32 i64 i128 u8 u16 u32 u64 u128 f32 f64 char str string
		bytes byte_buf option unit unit_struct newtype_struct seq tuple
		tuple_struct map struct enum identifier ignored_any
	}
}
fn from_document(kind: u8, fail_at: usize, expect: &[u8]) {
	unsafe { WRITER_FAILS_AT = fail_at; }
	let mut out = Output::new(LogW);
	let r = crate::Output::transcode_from(&mut out, OneEventDe { kind });
	let ok = r.is_ok();
	std::mem::forget(r);
	std::mem::forget(out);
	unsafe {
		if kind == 0 { assert!(!ok && WPOS == 0, "a failed document must not be framed"); return; }
		if fail_at >= expect.len() {
			assert!(ok && WPOS == expect.len());
			let mut i = 0; while i < expect.len() { assert!(WLOG[i] == expect[i], "JSON output is the document followed by exactly one newline"); i += 1; }
		} else { assert!(!ok, "a writer fault was swallowed"); assert!(WPOS == fail_at, "bytes accepted by a failing writer are a prefix of the fault-free output"); }
	}
}
#[kani::proof]
#[kani::unwind(8)]
#[kani::stub(core::fmt::write, fmt_write_literal)]
fn json_output_from_null_document_is_one_line() { from_document(1, 99, b"null\n"); }
#[kani::proof]
#[kani::unwind(8)]
#[kani::stub(core::fmt::write, fmt_write_literal)]
fn json_output_from_true_document_is_one_line() { from_document(2, 99, b"true\n"); }
#[kani::proof]
#[kani::unwind(8)]
#[kani::stub(core::fmt::write, fmt_write_literal)]
fn json_output_from_failed_document_not_framed() { from_document(0, 99, b""); }
#[kani::proof]
#[kani::unwind(8)]
#[kani::stub(core::fmt::write, fmt_write_literal)]
fn json_output_from_writer_fault_at_newline() { from_document(1, 4, b"null\n"); }
