// U-JSN: contract harness for the result mapping of json::input_matches (src/json.rs, child module `json::verif_kani`).
// The serde_json trial is replaced by its assumed contract: Ok, an I/O-category error (the source failed),
// or a syntax / data / EOF-category error.
use super::*;

static mut SOURCE_FAILED: bool = false;
static mut TRIAL_RAN: u8 = 0;
// the trial outcome is fixed per harness (one #[kani::proof] per outcome): a serde_json::Error whose kind is
// symbolic would have to be dropped with symbolic contents inside input_matches, which CBMC cannot afford
static mut OUTCOME: u8 = 0;

fn trial_result() -> Result<(), serde_json::Error> {
	unsafe { TRIAL_RAN += 1; }
	let k: u8 = unsafe { OUTCOME };
	match k {
		0 => Ok(()),
		1 => { unsafe { SOURCE_FAILED = true; } Err(serde_json::Error::io(io::ErrorKind::ConnectionReset.into())) }
		// a syntax / data / EOF-category error: built through the only cheap public constructor and told apart by
		// the stubbed is_io() below (serde_json's own constructors for these categories format messages)
		_ => { unsafe { LAST_IS_IO = false; } Err(serde_json::Error::io(io::ErrorKind::InvalidData.into())) }
	}
}
static mut LAST_IS_IO: bool = true;
fn is_io_contract(_e: &serde_json::Error) -> bool { unsafe { LAST_IS_IO } }
fn str_stub(_input: &str) -> Result<(), serde_json::Error> { trial_result() }
fn reader_stub<R: Read>(_input: R) -> Result<(), serde_json::Error> { trial_result() }

fn json_mapping(outcome: u8) {
	unsafe { OUTCOME = outcome; }
	let b: [u8; 3] = kani::any();
	let n: usize = kani::any(); kani::assume(n <= 3);
	let r = input_matches(Ref::Slice(&b[..n]));
	let utf8 = std::str::from_utf8(&b[..n]).is_ok();
	match &r {
		Ok(true) => assert!(utf8 && unsafe { TRIAL_RAN } == 1 && !unsafe { SOURCE_FAILED }),
		Ok(false) => assert!(!unsafe { SOURCE_FAILED }),
		Err(_) => assert!(unsafe { SOURCE_FAILED }, "detection failed although the source never reported an error"),
	}
	if !utf8 { assert!(matches!(r, Ok(false)) && unsafe { TRIAL_RAN } == 0); }
	if unsafe { SOURCE_FAILED } { assert!(r.is_err(), "an I/O fault was swallowed as 'not JSON'"); }
	kani::cover!(utf8 && unsafe { TRIAL_RAN } == 1, "trial ran");
	std::mem::forget(r);
}

#[kani::proof]
#[kani::unwind(5)]
#[kani::stub(match_input_str, str_stub)]
#[kani::stub(match_input_reader, reader_stub)]
#[kani::stub(serde_json::Error::is_io, is_io_contract)]
fn json_input_matches_mapping_ok() { json_mapping(0); }

#[kani::proof]
#[kani::unwind(5)]
#[kani::stub(match_input_str, str_stub)]
#[kani::stub(match_input_reader, reader_stub)]
#[kani::stub(serde_json::Error::is_io, is_io_contract)]
fn json_input_matches_mapping_io_error() { json_mapping(1); }

#[kani::proof]
#[kani::unwind(5)]
#[kani::stub(match_input_str, str_stub)]
#[kani::stub(match_input_reader, reader_stub)]
#[kani::stub(serde_json::Error::is_io, is_io_contract)]
fn json_input_matches_mapping_syntax_error() { json_mapping(2); }

