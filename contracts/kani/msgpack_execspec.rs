// Executable transcription of the Verus spec functions mp_value / mp_items (contracts/verus/msgpack_size.py).
// Included by the Kani harness module (bounded pair) and by the native failing-input search.
fn x_be16(s: &[u8]) -> usize { (s[1] as usize) * 256 + s[2] as usize }
fn x_be32(s: &[u8]) -> usize { (s[1] as usize) * 16777216 + (s[2] as usize) * 65536 + (s[3] as usize) * 256 + s[4] as usize }

fn x_items(s: &[u8], count: usize, d: usize) -> Option<usize> {
	if d == 0 { return if count == 0 { Some(0) } else { None }; }
	let mut total = 0usize;
	let mut k = 0usize;
	while k < count {
		// every item is at least one byte: more items than bytes can never be complete
		if total >= s.len() { return None; }
		match x_value(&s[total..], d - 1) { None => return None, Some(n) => total += n }
		k += 1;
	}
	Some(total)
}

fn x_value(s: &[u8], d: usize) -> Option<usize> {
	if d == 0 || s.is_empty() { return None; }
	let b = s[0];
	let l = s.len();
	let add = |k: usize, r: Option<usize>| r.map(|n| k + n);
	let body = if b <= 0x7f || b >= 0xe0 || b == 0xc0 || b == 0xc2 || b == 0xc3 { Some(1) }
		else if b == 0xc1 { None }
		else if b == 0xcc || b == 0xd0 { Some(2) }
		else if b == 0xcd || b == 0xd1 { Some(3) }
		else if b == 0xce || b == 0xd2 || b == 0xca { Some(5) }
		else if b == 0xcf || b == 0xd3 || b == 0xcb { Some(9) }
		else if b == 0xd4 { Some(3) } else if b == 0xd5 { Some(4) } else if b == 0xd6 { Some(6) }
		else if b == 0xd7 { Some(10) } else if b == 0xd8 { Some(18) }
		else if b == 0xc7 { if l >= 2 { Some(3 + s[1] as usize) } else { None } }
		else if b == 0xc8 { if l >= 3 { Some(4 + x_be16(s)) } else { None } }
		else if b == 0xc9 { if l >= 5 { Some(6 + x_be32(s)) } else { None } }
		else if (0xa0..=0xbf).contains(&b) { Some(1 + (b - 0xa0) as usize) }
		else if b == 0xd9 || b == 0xc4 { if l >= 2 { Some(2 + s[1] as usize) } else { None } }
		else if b == 0xda || b == 0xc5 { if l >= 3 { Some(3 + x_be16(s)) } else { None } }
		else if b == 0xdb || b == 0xc6 { if l >= 5 { Some(5 + x_be32(s)) } else { None } }
		else if (0x90..=0x9f).contains(&b) { add(1, x_items(&s[1..], (b - 0x90) as usize, d)) }
		else if (0x80..=0x8f).contains(&b) { add(1, x_items(&s[1..], 2 * (b - 0x80) as usize, d)) }
		else if b == 0xdc { if l >= 3 { add(3, x_items(&s[3..], x_be16(s), d)) } else { None } }
		else if b == 0xde { if l >= 3 { add(3, x_items(&s[3..], 2 * x_be16(s), d)) } else { None } }
		else if b == 0xdd { if l >= 5 { add(5, x_items(&s[5..], x_be32(s), d)) } else { None } }
		else { if l >= 5 { add(5, x_items(&s[5..], 2 * x_be32(s), d)) } else { None } };
	match body { Some(n) if n <= l => Some(n), _ => None }
}

