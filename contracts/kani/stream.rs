// U-TX: contract harnesses for the streaming transcoder src/transcode/stream.rs
// (child module `transcode::stream::verif_kani`: State / Visitor / Forwarder internals are visible).
//
// The real xt code runs against adversarial mock (de)serializers.  Every mock method may fail on its
// own; ghost bookkeeping records (a) which side failed FIRST, (b) whether an error value was created by
// that side for its own reason ("own") or through Error::custom ("synthetic"), and (c) the sequence of
// events the deserializer produced and the sequence of calls the serializer received.
use super::*;
use serde::de::Visitor as DeVisitor;
use serde::forward_to_deserialize_any;
include!("serde_mocks.rs");
use mocks::*;

fn check_transcode_outcome(r: Result<(), Error<SerErr, DeErr>>) {
	unsafe {
		// C01 / C12: what the serializer accepted is a prefix of what the deserializer produced, in order
		assert!(SER_POS <= DE_POS && DE_POS <= LOGN);
		match r {
			Ok(()) => {
				assert!(first() == 0, "Ok although one side failed");
				assert!(SER_POS == DE_POS, "every event reached the serializer");
				kani::cover!(DE_POS >= 6, "a full collection was forwarded");
			}
			Err(Error::De(e)) => {
				assert!(first() == 1, "deserializer blamed although the serializer failed first");
				assert!(!e.synthetic, "the reported cause is a synthetic 'translation failed' error");
				assert!(e.id == FIRST_ID, "the reported error is not the one that failed first");
				kani::cover!(DE_POS >= 3, "input error inside a collection");
			}
			Err(Error::Ser(s, _)) => {
				assert!(first() == 2, "serializer blamed although the deserializer failed first");
				assert!(!s.synthetic, "the reported cause is a synthetic 'translation failed' error");
				assert!(s.id == FIRST_ID, "the reported error is not the one that failed first");
				kani::cover!(SER_POS >= 2, "output error inside a collection");
			}
		}
	}
}

/// transcode() against the adversarial mocks, one level of nesting, <= 2 elements / 1 map entry, failure
/// possible at EVERY position (top level, serialize_seq/map, before / inside / after each element, key,
/// value, end, every deserializer step).
#[kani::proof]
#[kani::unwind(4)]
fn tx_error_attribution_depth1() {
	let r = transcode(MockSer, MockDe { depth: 1 });
	check_transcode_outcome(r);
}

/// Same at mock nesting depth 2 (collections inside collections, including in key position).
#[kani::proof]
#[kani::unwind(4)]
fn tx_error_attribution_depth2() {
	let r = transcode(MockSer, MockDe { depth: 2 });
	check_transcode_outcome(r);
}

/// Every scalar visit_<T> forwards to serialize_<T> of the SAME type with the bit-identical value, exactly
/// once (all 17 scalar visitor methods, every value of every type).  A failing serializer leaves the
/// visitor state (Ser, Some(own error)) and returns a synthetic deserializer error.
#[kani::proof]
fn tx_scalar_forwarding_exact() {
	let fail: bool = kani::any();
	let mut vis = Visitor::new(RecSer { fail });
	let which: u8 = kani::any();
	kani::assume(which >= 1 && which <= 17);
	let text = "h\u{e9}llo";
	let raw = [1u8, 2, 3];
	let (bits, r): (u128, Result<(), DeErr>) = match which {
		1 => { let v: bool = kani::any(); (v as u128, (&mut vis).visit_bool(v)) }
		2 => { let v: i8 = kani::any(); (v as u8 as u128, (&mut vis).visit_i8(v)) }
		3 => { let v: i16 = kani::any(); (v as u16 as u128, (&mut vis).visit_i16(v)) }
		4 => { let v: i32 = kani::any(); (v as u32 as u128, (&mut vis).visit_i32(v)) }
		5 => { let v: i64 = kani::any(); (v as u64 as u128, (&mut vis).visit_i64(v)) }
		6 => { let v: i128 = kani::any(); (v as u128, (&mut vis).visit_i128(v)) }
		7 => { let v: u8 = kani::any(); (v as u128, (&mut vis).visit_u8(v)) }
		8 => { let v: u16 = kani::any(); (v as u128, (&mut vis).visit_u16(v)) }
		9 => { let v: u32 = kani::any(); (v as u128, (&mut vis).visit_u32(v)) }
		10 => { let v: u64 = kani::any(); (v as u128, (&mut vis).visit_u64(v)) }
		11 => { let v: u128 = kani::any(); (v, (&mut vis).visit_u128(v)) }
		12 => { let v: f32 = kani::any(); (v.to_bits() as u128, (&mut vis).visit_f32(v)) }
		13 => { let v: f64 = kani::any(); (v.to_bits() as u128, (&mut vis).visit_f64(v)) }
		14 => { let v: char = kani::any(); (v as u32 as u128, (&mut vis).visit_char(v)) }
		15 => { let n: usize = kani::any(); kani::assume(n == 0 || n == 1 || n == 3 || n == 6); let s = &text[..n]; let r = (&mut vis).visit_str(s); assert!(unsafe { REC_PTR } == s.as_ptr()); (n as u128, r) }
		16 => { let n: usize = kani::any(); kani::assume(n <= 3); let b = &raw[..n]; let r = (&mut vis).visit_bytes(b); assert!(unsafe { REC_PTR } == b.as_ptr()); (n as u128, r) }
		_ => (0, (&mut vis).visit_unit()),
	};
	unsafe {
		assert!(REC_CALLS == 1, "exactly one serializer call per scalar");
		assert!(REC_KIND == which, "scalar forwarded to a serializer method of a different type");
		assert!(REC_BITS == bits, "scalar value changed on the way");
	}
	match r {
		Ok(()) => { assert!(!fail); assert!(vis.0.into_error().is_none()); }
		Err(e) => {
			assert!(fail && e.synthetic);
			assert!(matches!(vis.0.error_source(), ErrorSource::Ser));
			match vis.0.into_error() { Some(s) => assert!(!s.synthetic), None => assert!(false, "serializer error lost") }
		}
	}
	kani::cover!(which == 13 && !fail); kani::cover!(which == 6 && fail); kani::cover!(which == 15 && !fail);
}

// ---- per-function state contracts (arbitrary State values) ------------------------------------------

fn any_source() -> ErrorSource { if kani::any() { ErrorSource::Ser } else { ErrorSource::De } }
fn src_code(s: ErrorSource) -> u8 { match s { ErrorSource::De => 1, ErrorSource::Ser => 2 } }

#[kani::proof]
fn tx_state_capture_contracts() {
	// capture_error overwrites (source, error); capture_child_error copies both from the child
	let st: State<u8, SerErr> = State::new(7);
	let s1 = any_source(); let c1 = src_code(s1);
	st.capture_error(s1, SerErr { synthetic: kani::any(), id: 5 });
	assert!(src_code(st.error_source()) == c1);
	let child: State<u16, SerErr> = State::new(9);
	let has_err: bool = kani::any();
	let s2 = any_source(); let c2 = src_code(s2);
	if has_err { child.capture_error(s2, SerErr { synthetic: false, id: 6 }); }
	let parent: State<u8, SerErr> = State::new(1);
	parent.capture_child_error(child);
	assert!(src_code(parent.error_source()) == if has_err { c2 } else { 1 }, "child source is adopted (default: deserializer)");
	match parent.into_error() { Some(e) => assert!(has_err && e.id == 6), None => assert!(!has_err) }
	assert!(st.take_parent() == 7);
	match st.into_error() { Some(e) => assert!(e.id == 5), None => assert!(false) }
}

/// serialize_with_seed: the function repaired by fix 10afc14.  The collection serializer step
/// (`use_serializer`) either succeeds, or fails on its own without / after visiting the child, or fails
/// because the child (the forwarder) captured a deserializer-side or serializer-side failure.
struct LeafDe { k: u8 }
impl<'de> Deserializer<'de> for LeafDe {
	type Error = DeErr;
	fn deserialize_any<V: DeVisitor<'de>>(self, v: V) -> Result<V::Value, DeErr> {
		match self.k { 0 => Err(de_fail()), _ => v.visit_unit() }
	}
	forward_to_deserialize_any! {
		bool i8 i16 i32 i64 i128 u8 u16 u32 u64 u128 f32 f64 char str string
		bytes byte_buf option unit unit_struct newtype_struct seq tuple
		tuple_struct map struct enum identifier ignored_any
	}
}

#[kani::proof]
#[kani::unwind(3)]
fn tx_serialize_with_seed_contract() {
	let de_k: u8 = kani::any(); kani::assume(de_k < 2);       // 0: leaf deserializer fails on its own, 1: yields unit
	let mode: u8 = kani::any(); kani::assume(mode < 4);
	// mode 0: step fails before touching the child; 1: visits the child, then propagates its result;
	// mode 2: visits the child successfully, then fails on its own; 3: succeeds without looking (degenerate)
	let leaf_ser_fails: bool = kani::any();
	let mut seed_state: State<u8, SerErr> = State::new(3);
	let fwd = Forwarder::new(LeafDe { k: de_k });
	let r = fwd.serialize_with_seed(&mut seed_state, |_ser: u8, child: &Forwarder<LeafDe>| -> Result<(), SerErr> {
		match mode {
			0 => Err(ser_fail()),
			1 => child.serialize(RecSer { fail: leaf_ser_fails }),
			2 => { child.serialize(RecSer { fail: leaf_ser_fails })?; Err(ser_fail()) }
			_ => Ok(()),
		}
	});
	let src = src_code(seed_state.error_source());
	let captured = seed_state.into_error();
	match r {
		Ok(()) => { assert!(first() == 0); assert!(captured.is_none()); kani::cover!(mode == 1); }
		Err(e) => {
			assert!(first() != 0);
			let cap = match captured { Some(c) => c, None => { assert!(false, "serializer error lost"); return; } };
			if first() == 1 {
				// the leaf deserializer failed first: seed says De, returns the deserializer's OWN error
				assert!(src == 1 && !e.synthetic && e.id == unsafe { FIRST_ID });
				kani::cover!(true, "deserializer failure passes through");
			} else {
				// a serializer failed first (the step itself, or the leaf serializer): seed says Ser and holds that OWN error
				assert!(src == 2, "collection serializer's own failure attributed to the deserializer");
				assert!(!cap.synthetic && cap.id == unsafe { FIRST_ID }, "the captured serializer error is not the one that failed first");
				kani::cover!(mode == 0, "separator-style failure");
				kani::cover!(mode == 2, "failure after the element");
				kani::cover!(mode == 1, "leaf serializer failure");
			}
		}
	}
}

/// Forwarder::serialize from the outside of one nested collection: whatever happened inside (deserializer
/// failed on its own at any step, or a serializer step failed on its own), the forwarder's captured
/// (source, error) pair names the side that failed first and carries that side's own error onwards.
#[kani::proof]
#[kani::unwind(4)]
fn tx_forwarder_serialize_contract() {
	let fwd = Forwarder::new(MockDe { depth: 1 });
	let r = fwd.serialize(MockSer);
	let src = src_code(fwd.0.error_source());
	let captured = fwd.0.into_error();
	match r {
		Ok(()) => { assert!(first() == 0 && captured.is_none()); kani::cover!(unsafe { DE_POS } >= 4); }
		Err(s) => {
			let de_err = match captured { Some(e) => e, None => { assert!(false, "deserializer error lost"); return; } };
			assert!(first() != 0);
			assert!(src == first(), "nested failure re-attributed to the other side by Forwarder::serialize");
			if first() == 1 { assert!(!de_err.synthetic && de_err.id == unsafe { FIRST_ID }, "the deserializer's own error must travel on"); assert!(s.synthetic); }
			else { assert!(!s.synthetic && s.id == unsafe { FIRST_ID }, "the serializer's own error must travel on"); }
			kani::cover!(first() == 1 && unsafe { DE_POS } >= 2, "deserializer failed inside the nested collection");
			kani::cover!(first() == 2 && unsafe { SER_POS } >= 1, "serializer failed inside the nested collection");
		}
	}
}

// ---- induction over nesting depth, machine-checked ------------------------------------------------------
// V-contract of a subtree, observed where the real code observes it (the result of `de.deserialize_any(&mut visitor)`
// plus the visitor's State), given that nobody had failed when the subtree was entered:
//   Ok            => nobody failed; the serializer received exactly the events the deserializer produced
//   Err(e), state.source == De  => the deserializer failed first and `e` is its OWN error (state.error: anything)
//   Err(_), state.source == Ser => a serializer failed first and state.error holds its OWN error (`e`: anything)
// `AbsDe` is an ABSTRACT subtree: it exhibits every behaviour the V-contract allows and nothing else, by acting
// directly on the visitor it is handed (the harness module can see Visitor/State).  `StepDe` is a real collection
// event (sequence <= 2 elements / map <= 1 entry) whose children, in element, key and value position, are
// abstract subtrees.  `tx_depth_induction_step` proves: children satisfy V  ==>  the collection satisfies V,
// with the REAL visit_seq / visit_map / seeds / Forwarder in between and adversarial serializer steps.
// Base case: scalars satisfy V (`tx_depth_induction_base`).  Together: V holds for documents of EVERY depth;
// `tx_transcode_maps_v_contract_to_error` shows that transcode() turns V into the C11 attribution.
const E_ABS: u8 = 20;
static mut ABS_ENTERED_AFTER_FAILURE: bool = false;
struct AbsDe;
impl<'de> Deserializer<'de> for AbsDe {
	type Error = DeErr;
	fn deserialize_any<V: DeVisitor<'de>>(self, v: V) -> Result<V::Value, DeErr> {
		// in these harnesses the visitor is always xt's `&mut Visitor<MockSer>` (built by Forwarder::serialize / the harness)
		assert!(std::mem::size_of::<V>() == std::mem::size_of::<&mut Visitor<MockSer>>());
		assert!(std::mem::size_of::<V::Value>() == 0);
		let vis: &mut Visitor<MockSer> = unsafe { std::mem::transmute_copy(&v) };
		std::mem::forget(v);
		if first() != 0 { unsafe { ABS_ENTERED_AFTER_FAILURE = true; } }
		let k: u8 = kani::any();
		kani::assume(k < 3);
		match k {
			0 => {
				// the subtree translated completely: serializer consumed, equal event runs on both sides
				let _ = vis.0.take_parent();
				let tok: u64 = kani::any();
				de_log(E_ABS, tok); ser_log(E_ABS, tok);
				Ok(unsafe { std::mem::transmute_copy(&()) })
			}
			1 => {
				// the deserializer failed on its own somewhere inside: source stays De; the serializer may or may not
				// have been consumed; a synthetic serializer error may have been left behind on the way up
				if kani::any() { let _ = vis.0.take_parent(); }
				if kani::any() { vis.0.error.set(Some(SerErr { synthetic: true, id: 0 })); }
				if kani::any() { de_log(E_ABS, kani::any()); }
				Err(de_fail())
			}
			_ => {
				// a serializer failed on its own somewhere inside: (Ser, its own error); the deserializer error that
				// travels up is arbitrary (synthetic, or re-wrapped by the deserializer)
				if kani::any() { let _ = vis.0.take_parent(); }
				if kani::any() { de_log(E_ABS, kani::any()); }
				let s = ser_fail();
				vis.0.capture_error(ErrorSource::Ser, s);
				Err(DeErr { synthetic: kani::any(), id: kani::any() })
			}
		}
	}
	forward_to_deserialize_any! {
		bool i8 i16 i32 i64 i128 u8 u16 u32 u64 u128 f32 f64 char str string
		bytes byte_buf option unit unit_struct newtype_struct seq tuple
		tuple_struct map struct enum identifier ignored_any
	}
}
struct StepSeq { remaining: u8, hint: Option<usize> }
impl<'de> de::SeqAccess<'de> for StepSeq {
	type Error = DeErr;
	fn next_element_seed<T: DeserializeSeed<'de>>(&mut self, seed: T) -> Result<Option<T::Value>, DeErr> {
		if kani::any() { return Err(de_fail()); }
		if self.remaining == 0 { de_log(E_SEQ_END, 0); return Ok(None); }
		self.remaining -= 1;
		de_log(E_ELEM, 0);
		seed.deserialize(AbsDe).map(Some)
	}
	fn size_hint(&self) -> Option<usize> { self.hint }
}
struct StepMap { remaining: u8, hint: Option<usize> }
impl<'de> de::MapAccess<'de> for StepMap {
	type Error = DeErr;
	fn next_key_seed<K: DeserializeSeed<'de>>(&mut self, seed: K) -> Result<Option<K::Value>, DeErr> {
		if kani::any() { return Err(de_fail()); }
		if self.remaining == 0 { de_log(E_MAP_END, 0); return Ok(None); }
		self.remaining -= 1;
		de_log(E_KEY, 0);
		seed.deserialize(AbsDe).map(Some)
	}
	fn next_value_seed<V: DeserializeSeed<'de>>(&mut self, seed: V) -> Result<V::Value, DeErr> {
		if kani::any() { return Err(de_fail()); }
		de_log(E_VAL, 0);
		seed.deserialize(AbsDe)
	}
	fn size_hint(&self) -> Option<usize> { self.hint }
}
struct StepDe { map: bool }
impl<'de> Deserializer<'de> for StepDe {
	type Error = DeErr;
	fn deserialize_any<V: DeVisitor<'de>>(self, v: V) -> Result<V::Value, DeErr> {
		if self.map {
			let n: u8 = kani::any(); kani::assume(n < 2);
			// the size hint is ANY value (a declared length of a million entries included), independent of what follows
			let hint: Option<usize> = kani::any(); kani::assume(hint != Some(usize::MAX));
			de_log(E_MAP, hint_code(hint));
			v.visit_map(StepMap { remaining: n, hint })
		} else {
			let n: u8 = kani::any(); kani::assume(n < 3);
			let hint: Option<usize> = kani::any(); kani::assume(hint != Some(usize::MAX));
			de_log(E_SEQ, hint_code(hint));
			v.visit_seq(StepSeq { remaining: n, hint })
		}
	}
	forward_to_deserialize_any! {
		bool i8 i16 i32 i64 i128 u8 u16 u32 u64 u128 f32 f64 char str string
		bytes byte_buf option unit unit_struct newtype_struct seq tuple
		tuple_struct map struct enum identifier ignored_any
	}
}

/// The V-contract, checked on (result, visitor state).
fn check_v_contract(r: Result<(), DeErr>, vis: Visitor<MockSer>) {
	unsafe { assert!(!ABS_ENTERED_AFTER_FAILURE, "a subtree was entered after a failure"); }
	unsafe { assert!(SER_POS <= DE_POS); }
	let src = src_code(vis.0.error_source());
	let cap = vis.0.into_error();
	match r {
		Ok(()) => {
			assert!(first() == 0, "Ok although one side failed");
			unsafe { assert!(SER_POS == DE_POS, "every event reached the serializer"); }
		}
		Err(e) => {
			assert!(first() != 0, "Err although nobody failed");
			assert!(src == first(), "the state blames the side that did not fail first");
			if first() == 1 {
				assert!(!e.synthetic && e.id == unsafe { FIRST_ID }, "the deserializer's own error must travel up");
			} else {
				match cap {
					Some(c) => assert!(!c.synthetic && c.id == unsafe { FIRST_ID }, "the serializer's own error must be the captured one"),
					None => assert!(false, "serializer error lost"),
				}
			}
		}
	}
}

/// Inductive step: a sequence / map whose children are arbitrary V-satisfying subtrees satisfies V.
#[kani::proof]
#[kani::unwind(4)]
fn tx_depth_induction_step() {
	let mut visitor = Visitor::new(MockSer);
	let r = StepDe { map: kani::any() }.deserialize_any(&mut visitor);
	kani::cover!(r.is_ok() && unsafe { DE_POS } >= 4, "collection with abstract children translated");
	kani::cover!(r.is_err() && first() == 1 && unsafe { DE_POS } >= 2, "deserializer failure below a collection");
	kani::cover!(r.is_err() && first() == 2 && unsafe { SER_POS } >= 1, "serializer failure below a collection");
	check_v_contract(r, visitor);
}

/// Base case: every scalar leaf (value or deserializer failure, serializer accepting or failing) satisfies V.
#[kani::proof]
#[kani::unwind(2)]
fn tx_depth_induction_base() {
	let mut visitor = Visitor::new(MockSer);
	let r = MockDe { depth: 0 }.deserialize_any(&mut visitor);
	kani::cover!(r.is_ok(), "scalar leaf translated");
	kani::cover!(r.is_err() && first() == 1, "leaf deserializer failure");
	kani::cover!(r.is_err() && first() == 2, "leaf serializer failure");
	check_v_contract(r, visitor);
}

/// transcode() maps V to the attribution C11 asks for: with an abstract V-satisfying document at top level,
/// De => Error::De(own deserializer error), Ser => Error::Ser(own serializer error), Ok => nobody failed.
#[kani::proof]
#[kani::unwind(2)]
fn tx_transcode_maps_v_contract_to_error() {
	let r = transcode(MockSer, AbsDe);
	unsafe { assert!(!ABS_ENTERED_AFTER_FAILURE); }
	match r {
		Ok(()) => assert!(first() == 0),
		Err(Error::De(e)) => { assert!(first() == 1, "deserializer blamed although the serializer failed first"); assert!(!e.synthetic && e.id == unsafe { FIRST_ID }); }
		Err(Error::Ser(s, _)) => { assert!(first() == 2, "serializer blamed although the deserializer failed first"); assert!(!s.synthetic && s.id == unsafe { FIRST_ID }); }
	}
	kani::cover!(first() == 1); kani::cover!(first() == 2); kani::cover!(first() == 0);
}

// ---- end to end into the REAL serde_json serializer, for documents of concrete shape ------------------
// (serde_json writes literals through write_all, which CBMC handles when the document shape is concrete)

static mut WLOG: [u8; 24] = [0; 24];
static mut WPOS: usize = 0;
static mut WRITER_FAILS_AT: usize = 99;
struct LogW;
impl std::io::Write for LogW {
	fn write(&mut self, buf: &[u8]) -> std::io::Result<usize> { self.write_all(buf)?; Ok(buf.len()) }
	fn write_all(&mut self, buf: &[u8]) -> std::io::Result<()> {
		let mut i = 0;
		while i < buf.len() {
			unsafe {
				if WPOS >= WRITER_FAILS_AT { return Err(std::io::ErrorKind::StorageFull.into()); }
				if WPOS < 24 { WLOG[WPOS] = buf[i]; }
				WPOS += 1;
			}
			i += 1;
		}
		Ok(())
	}
	fn flush(&mut self) -> std::io::Result<()> { Ok(()) }
}
fn run_script(script: &[u8], depth: u8) -> Result<(), Error<serde_json::Error, DeErr>> {
	unsafe { SCRIPT_ON = true; DE_MAY_FAIL = false; let mut i = 0; while i < script.len() { SCRIPT[i] = script[i]; i += 1; } }
	let mut ser = serde_json::Serializer::new(LogW);
	transcode(&mut ser, MockDe { depth })
}
fn written_is(expect: &[u8]) -> bool {
	unsafe { if WPOS != expect.len() { return false; } let mut i = 0; while i < expect.len() { if WLOG[i] != expect[i] { return false; } i += 1; } true }
}

/// [bool, null] -> exactly `[true,null]` / `[false,null]`: element order, separators, end bracket.
#[kani::proof]
#[kani::unwind(14)]
fn tx_json_e2e_seq() {
	let r = run_script(&[3, 2, 1, 5], 1);
	let ok = r.is_ok(); std::mem::forget(r);
	assert!(ok);
	let b = unsafe { DE_LOG[2].1 } != 0;
	assert!(if b { written_is(b"[true,null]") } else { written_is(b"[false,null]") }, "JSON text differs from the document the deserializer produced");
}

/// {"k": bool} -> exactly `{"k":true}` / `{"k":false}`: key before value, string key kept a string.
#[kani::proof]
#[kani::unwind(14)]
fn tx_json_e2e_map() {
	let r = run_script(&[4, 1, 6, 1], 1);
	let ok = r.is_ok(); std::mem::forget(r);
	assert!(ok);
	let b = unsafe { DE_LOG[4].1 } != 0;
	assert!(if b { written_is(b"{\"k\":true}") } else { written_is(b"{\"k\":false}") }, "JSON text differs from the document the deserializer produced");
}

/// {null: null}: the target cannot represent the key; the failure is the serializer's own and is reported as such.
#[kani::proof]
#[kani::unwind(14)]
fn tx_json_e2e_unrepresentable_key_blames_serializer() {
	let r = run_script(&[4, 1, 5, 5], 1);
	match &r {
		Ok(()) => assert!(false, "JSON accepted a null map key"),
		Err(Error::De(_)) => assert!(false, "a value the target cannot represent was reported as an input error"),
		Err(Error::Ser(s, _)) => { assert!(s.is_data() || s.is_syntax(), "not serde_json's own refusal"); assert!(!s.is_io()); }
	}
	std::mem::forget(r);
	assert!(written_is(b"{"), "bytes after the refused key");
}

/// `[true,{"k":null}]` with a writer that starts failing at ANY byte k of the output (k enumerated with a
/// concrete loop counter: 17 runs of the real transcoder + real serializer): the result is Error::Ser carrying
/// the writer's I/O error (never Ok, never an input error) and the bytes the writer accepted are exactly the
/// first k bytes of the fault-free output.
#[kani::proof]
#[kani::unwind(20)]
fn tx_json_e2e_writer_fault_at_any_byte() {
	let expect = b"[true,{\"k\":null}]";
	unsafe { FIXED_BOOLS = true; }
	let mut k = 0;
	while k < expect.len() {
		reset_mocks();
		unsafe { WPOS = 0; WRITER_FAILS_AT = k; }
		let r = run_script(&[3, 2, 1, 4, 1, 6, 5], 2);
		match &r {
			Ok(()) => assert!(false, "a writer fault was swallowed"),
			Err(Error::De(_)) => assert!(false, "a writer fault was reported as an input error"),
			Err(Error::Ser(s, _)) => assert!(s.is_io(), "the serializer error does not carry the writer's I/O error"),
		}
		std::mem::forget(r);
		unsafe {
			assert!(WPOS == k, "writer accepted bytes after it started failing");
			let mut i = 0; while i < k { assert!(WLOG[i] == expect[i], "bytes accepted before the fault are not a prefix of the fault-free output"); i += 1; }
		}
		k += 1;
	}
}

// ---- end to end into the REAL rmp_serde serializer ------------------------------------------------------
fn run_script_msgpack(script: &[u8], depth: u8) -> Result<(), Error<rmp_serde::encode::Error, DeErr>> {
	unsafe { SCRIPT_ON = true; DE_MAY_FAIL = false; let mut i = 0; while i < script.len() { SCRIPT[i] = script[i]; i += 1; } }
	let mut ser = rmp_serde::Serializer::new(LogW);
	transcode(&mut ser, MockDe { depth })
}

/// [u64 v, bool b] -> 0x92, the SMALLEST MessagePack encoding of v (every 64-bit value), then 0xc3 / 0xc2:
/// the integer stays an integer with the identical value, order kept.
#[kani::proof]
#[kani::unwind(14)]
fn tx_msgpack_e2e_seq_u64_bool() {
	let r = run_script_msgpack(&[3, 2, 2, 1], 1);
	let ok = r.is_ok(); std::mem::forget(r);
	assert!(ok);
	let v = unsafe { DE_LOG[2].1 };
	let b = unsafe { DE_LOG[4].1 } != 0;
	let w = unsafe { &*std::ptr::addr_of!(WLOG) };
	assert!(w[0] == 0x92, "array header");
	// decode the integer back, independently of rmp
	let (val, n): (u64, usize) = match w[1] {
		m if m < 0x80 => (m as u64, 1),
		0xcc => (w[2] as u64, 2),
		0xcd => (((w[2] as u64) << 8) | w[3] as u64, 3),
		0xce => (((w[2] as u64) << 24) | ((w[3] as u64) << 16) | ((w[4] as u64) << 8) | w[5] as u64, 5),
		0xcf => { let mut x = 0u64; let mut i = 0; while i < 8 { x = (x << 8) | w[2 + i] as u64; i += 1; } (x, 9) }
		_ => { assert!(false, "not a MessagePack unsigned integer"); (0, 0) }
	};
	assert!(val == v, "integer value changed on its way to the MessagePack output");
	assert!(w[1 + n] == if b { 0xc3 } else { 0xc2 }, "second element");
	assert!(unsafe { WPOS } == 2 + n, "nothing else written");
	kani::cover!(n == 9 && v > i64::MAX as u64, "integer above i64::MAX keeps its value");
	kani::cover!(n == 1);
}

/// {"k": null} -> 0x81 0xa1 'k' 0xc0
#[kani::proof]
#[kani::unwind(14)]
fn tx_msgpack_e2e_map() {
	let r = run_script_msgpack(&[4, 1, 6, 5], 1);
	let ok = r.is_ok(); std::mem::forget(r);
	assert!(ok);
	assert!(written_is(&[0x81, 0xa1, b'k', 0xc0]));
}

// (A scripted depth-3 attribution harness -- concrete shape [ { bool: [ bool ] } ], all failure points symbolic -- was
// tried for the thorough tier and dropped: > 50 min / 12 GB.)
