// U-PIPE: contract harness for src/pipecheck.rs (bin target, child module `pipecheck::verif_kani`).
// exit_for_broken_pipe (raise(SIGPIPE) / process::exit) is replaced by a diverging marker.
use super::*;

static mut DIVERTED: bool = false;
fn exit_marker() -> ! { unsafe { DIVERTED = true; } kani::assume(false); loop {} }

struct Inner { kind: u8, calls: [u8; 5] }
impl Inner {
	fn res<T>(&mut self, which: usize, ok: T) -> io::Result<T> {
		self.calls[which] += 1;
		match self.kind {
			0 => Ok(ok),
			1 => Err(io::ErrorKind::BrokenPipe.into()),
			2 => Err(io::ErrorKind::StorageFull.into()),
			3 => Err(io::ErrorKind::WriteZero.into()),
			4 => Err(io::ErrorKind::Interrupted.into()),
			_ => Err(io::ErrorKind::Other.into()),
		}
	}
}
impl Write for Inner {
	fn write(&mut self, buf: &[u8]) -> io::Result<usize> { self.res(0, buf.len()) }
	fn flush(&mut self) -> io::Result<()> { self.res(1, ()) }
	fn write_all(&mut self, _buf: &[u8]) -> io::Result<()> { self.res(2, ()) }
	fn write_fmt(&mut self, _f: std::fmt::Arguments<'_>) -> io::Result<()> { self.res(3, ()) }
	fn write_vectored(&mut self, _b: &[io::IoSlice<'_>]) -> io::Result<usize> { self.res(4, 0) }
}

/// For each of write / flush / write_all / write_fmt / write_vectored and every inner result:
/// BrokenPipe => the call never returns to the caller (diverted to the exit path); any other
/// result is passed through unchanged; the SAME inner method is called exactly once.
#[kani::proof]
#[kani::stub(exit_for_broken_pipe, exit_marker)]
fn every_write_method_diverts_broken_pipe() {
	let kind: u8 = kani::any(); kani::assume(kind < 6);
	let which: u8 = kani::any(); kani::assume(which < 5);
	let mut w = Writer::new(Inner { kind, calls: [0; 5] });
	let data = [1u8, 2, 3];
	let (is_err, err_kind) = match which {
		0 => { let r = w.write(&data); (r.is_err(), r.err().map(|e| e.kind())) }
		1 => { let r = w.flush(); (r.is_err(), r.err().map(|e| e.kind())) }
		2 => { let r = w.write_all(&data); (r.is_err(), r.err().map(|e| e.kind())) }
		3 => { let r = w.write_fmt(format_args!("x")); (r.is_err(), r.err().map(|e| e.kind())) }
		_ => { let r = w.write_vectored(&[io::IoSlice::new(&data)]); (r.is_err(), r.err().map(|e| e.kind())) }
	};
	// reaching here means the call returned to the caller
	assert!(kind != 1);
	assert!(!unsafe { DIVERTED });
	let mut i = 0;
	while i < 5 { assert!(w.0.calls[i] == if i == which as usize { 1 } else { 0 }); i += 1; }
	assert!(is_err == (kind >= 2));
	if kind == 2 { assert!(err_kind == Some(io::ErrorKind::StorageFull)); }
	if kind == 3 { assert!(err_kind == Some(io::ErrorKind::WriteZero)); }
	kani::cover!(kind == 0 && which == 3, "write_fmt passes Ok through");
	kani::cover!(kind == 2 && which == 1, "flush passes a full-device error through");
}

/// check_for_broken_pipe on its own: identity on everything but BrokenPipe, over every ErrorKind code we can build.
#[kani::proof]
#[kani::stub(exit_for_broken_pipe, exit_marker)]
fn check_for_broken_pipe_is_identity_otherwise() {
	let k: u8 = kani::any(); kani::assume(k < 8);
	let kind = match k { 0 => io::ErrorKind::NotFound, 1 => io::ErrorKind::PermissionDenied, 2 => io::ErrorKind::BrokenPipe,
		3 => io::ErrorKind::StorageFull, 4 => io::ErrorKind::WriteZero, 5 => io::ErrorKind::Interrupted, 6 => io::ErrorKind::UnexpectedEof, _ => io::ErrorKind::Other };
	let v: u32 = kani::any();
	let input: io::Result<u32> = if kani::any() { Ok(v) } else { Err(kind.into()) };
	let was_ok = input.is_ok();
	let out = check_for_broken_pipe(input);
	match out {
		Ok(x) => { assert!(was_ok && x == v); }
		Err(e) => { assert!(!was_ok && e.kind() == kind && kind != io::ErrorKind::BrokenPipe); }
	}
	kani::cover!(!was_ok && k == 3, "StorageFull comes back as an error");
}

// (dropped attempt, session 4: a harness for exit_for_broken_pipe itself -- signal(SIGPIPE, SIG_DFL) BEFORE raise(SIGPIPE) -- needs
// libc::signal / libc::raise replaced by recording probes.  Kani 0.68 resolves `#[kani::stub(libc::signal, ..)]` but still reports
// "call to foreign \"C\" function `signal` is not currently supported"; with -Z c-ffi a #[no_mangle] Rust definition is not linked
// ("missing definition").  The order of the two FFI calls stays outside every contract; seeded change C16-h is the witness.)
