// U-CHK: contract harnesses for ChunkReader in src/yaml/chunker.rs (child module `yaml::chunker::verif_kani`).
//
// Representation invariant of a ChunkReader over a source that owns the fixed stream data[..len] and has
// delivered `off` bytes so far:   captured == data[start..off]  &&  captured_start_offset == start <= off
use super::*;

struct Src<const N: usize> { data: [u8; N], len: usize, off: usize, reads: usize, lie: bool, lied: bool }
impl<const N: usize> Read for Src<N> {
	fn read(&mut self, buf: &mut [u8]) -> io::Result<usize> {
		self.reads += 1;
		if kani::any() { return Err(io::ErrorKind::ConnectionReset.into()); }
		let avail = self.len - self.off;
		let want = std::cmp::min(avail, buf.len());
		let k: usize = kani::any();
		kani::assume(k <= want && (k > 0 || want == 0));
		let mut i = 0;
		while i < k { buf[i] = self.data[self.off + i]; i += 1; }
		self.off += k;
		if self.lie { let extra: usize = kani::any(); kani::assume(extra >= 1 && extra <= 3); self.lied = true; return Ok(buf.len() + extra); }
		Ok(k)
	}
}

fn any_valid<const N: usize>(lie: bool) -> (ChunkReader<Src<N>>, [u8; N], usize, usize, usize) {
	let data: [u8; N] = kani::any();
	let len: usize = kani::any(); kani::assume(len <= N);
	let off: usize = kani::any(); kani::assume(off <= len);
	let start: usize = kani::any(); kani::assume(start <= off);
	let mut cr = ChunkReader::new(Src { data, len, off, reads: 0, lie, lied: false });
	cr.captured.extend_from_slice(&data[start..off]);
	cr.captured_start_offset = start as u64;
	(cr, data, len, off, start)
}

fn assert_invariant<const N: usize>(cr: &ChunkReader<Src<N>>, data: &[u8; N], start: usize) {
	let off1 = cr.reader.off;
	assert!(cr.captured_start_offset == start as u64);
	assert!(cr.captured.len() == off1 - start, "buffer holds exactly the bytes since the current document start");
	let mut i = 0; while i < off1 - start { assert!(cr.captured[i] == data[start + i]); i += 1; }
}

fn read_step<const N: usize, const B: usize>() {
	let (mut cr, data, _len, off, start) = any_valid::<N>(false);
	let mut buf = [0u8; B];
	let bl: usize = kani::any(); kani::assume(bl <= B);
	let r = cr.read(&mut buf[..bl]);
	assert_invariant(&cr, &data, start);
	assert!(cr.reader.reads == 1, "exactly one read of the source per read (no read-ahead)");
	match r {
		Ok(n) => {
			assert!(n <= bl && cr.reader.off == off + n);
			let mut i = 0; while i < n { assert!(buf[i] == data[off + i], "parser receives the stream unaltered"); i += 1; }
			kani::cover!(n > 0);
		}
		Err(_) => { assert!(cr.reader.off == off, "failed read captures nothing"); kani::cover!(true); }
	}
}

#[kani::proof]
#[kani::unwind(7)]
fn chunk_reader_read_step() { read_step::<5, 3>(); }

#[kani::proof]
#[kani::unwind(10)]
fn chunk_reader_read_step_big() { read_step::<8, 5>(); }

// Vec::drain / split_off with SYMBOLIC lengths are out of CBMC's reach (memmove of symbolic size), so the
// three harnesses below enumerate every size combination (start <= o <= delivered <= N) with concrete loop
// counters -- each iteration runs the real code on concrete sizes -- while the stream CONTENTS stay symbolic.
// Coverage is the same as with symbolic sizes: all states with a stream of at most N bytes.

fn valid_with<const N: usize>(data: [u8; N], off: usize, start: usize) -> ChunkReader<Src<N>> {
	let mut cr = ChunkReader::new(Src { data, len: N, off, reads: 0, lie: false, lied: false });
	cr.captured.extend_from_slice(&data[start..off]);
	cr.captured_start_offset = start as u64;
	cr
}

/// take_to_offset(o) returns stream[start..o] and leaves stream[o..off].
/// Precondition (assumed contract of libyaml marks): start <= o <= off.
#[kani::proof]
#[kani::unwind(7)]
fn chunk_reader_take_to_offset() {
	const N: usize = 4;
	let data: [u8; N] = kani::any();
	let mut start = 0;
	while start <= N {
		let mut off = start;
		while off <= N {
			let mut o = start;
			while o <= off {
				let mut cr = valid_with::<N>(data, off, start);
				let chunk = cr.take_to_offset(o as u64);
				assert!(chunk.len() == o - start, "chunk is exactly the bytes of the document");
				let mut i = 0; while i < o - start { assert!(chunk[i] == data[start + i], "chunk content is the stream between the marks"); i += 1; }
				assert_invariant(&cr, &data, o);
				assert!(cr.reader.reads == 0);
				o += 1;
			}
			off += 1;
		}
		start += 1;
	}
}

/// trim_to_offset(o) leaves stream[o..off]: memory held is the bytes since the current document start.
#[kani::proof]
#[kani::unwind(7)]
fn chunk_reader_trim_to_offset() {
	const N: usize = 4;
	let data: [u8; N] = kani::any();
	let mut start = 0;
	while start <= N {
		let mut off = start;
		while off <= N {
			let mut o = start;
			while o <= off {
				let mut cr = valid_with::<N>(data, off, start);
				cr.trim_to_offset(o as u64);
				assert_invariant(&cr, &data, o);
				assert!(cr.reader.reads == 0);
				o += 1;
			}
			off += 1;
		}
		start += 1;
	}
}

/// Consecutive cuts partition the stream: take(a), trim(b), take(c) with start <= a <= b <= c <= delivered
/// return adjacent, non-overlapping, in-order substrings (document, gap dropped, next document).
#[kani::proof]
#[kani::unwind(6)]
fn chunk_reader_cuts_partition_stream() {
	const N: usize = 3;
	let data: [u8; N] = kani::any();
	let off = N;
	let mut start = 0;
	while start <= N {
		let mut a = start;
		while a <= N {
			let mut b = a;
			while b <= N {
				let mut c = b;
				while c <= N {
					let mut cr = valid_with::<N>(data, off, start);
					let d1 = cr.take_to_offset(a as u64);
					cr.trim_to_offset(b as u64);
					let d2 = cr.take_to_offset(c as u64);
					assert!(d1.len() == a - start && d2.len() == c - b);
					let mut i = 0; while i < d1.len() { assert!(d1[i] == data[start + i]); i += 1; }
					let mut i = 0; while i < d2.len() { assert!(d2[i] == data[b + i], "second document starts at the trimmed offset"); i += 1; }
					assert_invariant(&cr, &data, c);
					c += 1;
				}
				b += 1;
			}
			a += 1;
		}
		start += 1;
	}
}

/// A reader that claims to have read more than the buffer holds (violating the Read contract): the only
/// failure is the clean slice-index panic in ChunkReader::read -- no out-of-bounds access.
#[kani::proof]
#[kani::unwind(7)]
fn chunk_reader_overreporting_reader_panics_cleanly() {
	let (mut cr, _data, _len, _off, _start) = any_valid::<4>(true);
	let mut buf = [0u8; 3];
	let bl: usize = kani::any(); kani::assume(bl <= 3);
	let r = cr.read(&mut buf[..bl]);
	// reached only if the source failed before lying
	assert!(r.is_err() || !cr.reader.lied, "an over-reported length was accepted");
}
