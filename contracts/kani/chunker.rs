// U-CHK: contract harnesses for ChunkReader in src/yaml/chunker.rs (child module `yaml::chunker::verif_kani`).
//
// Representation invariant of a ChunkReader over a source that owns the fixed stream data[..len] and has
// delivered `off` bytes so far:   captured == data[start..off]  &&  captured_start_offset == start <= off
use super::*;

struct Src<const N: usize> { data: [u8; N], len: usize, off: usize, reads: usize, lie: bool, lied: bool }
impl<const N: usize> Read for Src<N> {
	fn read(&mut self, buf: &mut [u8]) -> io::Result<usize> {
		self.reads += 1;
		if kani::any() { return Err(io::ErrorKind::ConnectionReset.into()); }
		let avail = self.len - self.off;
		let want = std::cmp::min(avail, buf.len());
		let k: usize = kani::any();
		kani::assume(k <= want && (k > 0 || want == 0));
		let mut i = 0;
		while i < k { buf[i] = self.data[self.off + i]; i += 1; }
		self.off += k;
		if self.lie { let extra: usize = kani::any(); kani::assume(extra >= 1 && extra <= 3); self.lied = true; return Ok(buf.len() + extra); }
		Ok(k)
	}
}

fn any_valid<const N: usize>(lie: bool) -> (ChunkReader<Src<N>>, [u8; N], usize, usize, usize) {
	let data: [u8; N] = kani::any();
	let len: usize = kani::any(); kani::assume(len <= N);
	let off: usize = kani::any(); kani::assume(off <= len);
	let start: usize = kani::any(); kani::assume(start <= off);
	let mut cr = ChunkReader::new(Src { data, len, off, reads: 0, lie, lied: false });
	cr.captured.extend_from_slice(&data[start..off]);
	cr.captured_start_offset = start as u64;
	(cr, data, len, off, start)
}

fn assert_invariant<const N: usize>(cr: &ChunkReader<Src<N>>, data: &[u8; N], start: usize) {
	let off1 = cr.reader.off;
	assert!(cr.captured_start_offset == start as u64);
	assert!(cr.captured.len() == off1 - start, "buffer holds exactly the bytes since the current document start");
	let mut i = 0; while i < off1 - start { assert!(cr.captured[i] == data[start + i]); i += 1; }
}

fn read_step<const N: usize, const B: usize>() {
	let (mut cr, data, _len, off, start) = any_valid::<N>(false);
	let mut buf = [0u8; B];
	let bl: usize = kani::any(); kani::assume(bl <= B);
	let r = cr.read(&mut buf[..bl]);
	assert_invariant(&cr, &data, start);
	assert!(cr.reader.reads == 1, "exactly one read of the source per read (no read-ahead)");
	match r {
		Ok(n) => {
			assert!(n <= bl && cr.reader.off == off + n);
			let mut i = 0; while i < n { assert!(buf[i] == data[off + i], "parser receives the stream unaltered"); i += 1; }
			kani::cover!(n > 0);
		}
		Err(_) => { assert!(cr.reader.off == off, "failed read captures nothing"); kani::cover!(true); }
	}
}

#[kani::proof]
#[kani::unwind(7)]
fn chunk_reader_read_step() { read_step::<5, 3>(); }

#[kani::proof]
#[kani::unwind(10)]
fn chunk_reader_read_step_big() { read_step::<8, 5>(); }

// Vec::drain / split_off with SYMBOLIC lengths are out of CBMC's reach (memmove of symbolic size), so the
// three harnesses below enumerate every size combination (start <= o <= delivered <= N) with concrete loop
// counters -- each iteration runs the real code on concrete sizes -- while the stream CONTENTS stay symbolic.
// Coverage is the same as with symbolic sizes: all states with a stream of at most N bytes.

fn valid_with<const N: usize>(data: [u8; N], off: usize, start: usize) -> ChunkReader<Src<N>> {
	let mut cr = ChunkReader::new(Src { data, len: N, off, reads: 0, lie: false, lied: false });
	cr.captured.extend_from_slice(&data[start..off]);
	cr.captured_start_offset = start as u64;
	cr
}

/// take_to_offset(o) returns stream[start..o] and leaves stream[o..off].
/// Precondition (assumed contract of libyaml marks): start <= o <= off.
#[kani::proof]
#[kani::unwind(7)]
fn chunk_reader_take_to_offset() {
	const N: usize = 4;
	let data: [u8; N] = kani::any();
	let mut start = 0;
	while start <= N {
		let mut off = start;
		while off <= N {
			let mut o = start;
			while o <= off {
				let mut cr = valid_with::<N>(data, off, start);
				let chunk = cr.take_to_offset(o as u64);
				assert!(chunk.len() == o - start, "chunk is exactly the bytes of the document");
				let mut i = 0; while i < o - start { assert!(chunk[i] == data[start + i], "chunk content is the stream between the marks"); i += 1; }
				assert_invariant(&cr, &data, o);
				assert!(cr.reader.reads == 0);
				o += 1;
			}
			off += 1;
		}
		start += 1;
	}
}

/// trim_to_offset(o) leaves stream[o..off]: memory held is the bytes since the current document start.
#[kani::proof]
#[kani::unwind(7)]
fn chunk_reader_trim_to_offset() {
	const N: usize = 4;
	let data: [u8; N] = kani::any();
	let mut start = 0;
	while start <= N {
		let mut off = start;
		while off <= N {
			let mut o = start;
			while o <= off {
				let mut cr = valid_with::<N>(data, off, start);
				cr.trim_to_offset(o as u64);
				assert_invariant(&cr, &data, o);
				assert!(cr.reader.reads == 0);
				o += 1;
			}
			off += 1;
		}
		start += 1;
	}
}

/// Consecutive cuts partition the stream: take(a), trim(b), take(c) with start <= a <= b <= c <= delivered
/// return adjacent, non-overlapping, in-order substrings (document, gap dropped, next document).
#[kani::proof]
#[kani::unwind(6)]
fn chunk_reader_cuts_partition_stream() {
	const N: usize = 3;
	let data: [u8; N] = kani::any();
	let off = N;
	let mut start = 0;
	while start <= N {
		let mut a = start;
		while a <= N {
			let mut b = a;
			while b <= N {
				let mut c = b;
				while c <= N {
					let mut cr = valid_with::<N>(data, off, start);
					let d1 = cr.take_to_offset(a as u64);
					cr.trim_to_offset(b as u64);
					let d2 = cr.take_to_offset(c as u64);
					assert!(d1.len() == a - start && d2.len() == c - b);
					let mut i = 0; while i < d1.len() { assert!(d1[i] == data[start + i]); i += 1; }
					let mut i = 0; while i < d2.len() { assert!(d2[i] == data[b + i], "second document starts at the trimmed offset"); i += 1; }
					assert_invariant(&cr, &data, c);
					c += 1;
				}
				b += 1;
			}
			a += 1;
		}
		start += 1;
	}
}

/// A reader that claims to have read more than the buffer holds (violating the Read contract): the only
/// failure is the clean slice-index panic in ChunkReader::read -- no out-of-bounds access.
#[kani::proof]
#[kani::unwind(7)]
fn chunk_reader_overreporting_reader_panics_cleanly() {
	let (mut cr, _data, _len, _off, _start) = any_valid::<4>(true);
	let mut buf = [0u8; 3];
	let bl: usize = kani::any(); kani::assume(bl <= 3);
	let r = cr.read(&mut buf[..bl]);
	// reached only if the source failed before lying
	assert!(r.is_err() || !cr.reader.lied, "an over-reported length was accepted");
}

// ---- Chunker::next against a scripted libyaml (C03 / C05 / C09: every document exactly once, in order,
// deferred by one event, with the right bytes and the right collection / scalar classification) ----------
use super::parser::verif_kani::{fake_new, scripted_next_event, EV_TYPE, EV_START, EV_END, EV_LEN, EV_POS};
const STREAM_START: u32 = 1; const STREAM_END: u32 = 2; const DOC_START: u32 = 3; const DOC_END: u32 = 4;
const ALIAS: u32 = 5; const SCALAR: u32 = 6; const SEQ_START: u32 = 7; const SEQ_END: u32 = 8; const MAP_START: u32 = 9; const MAP_END: u32 = 10;

fn script(events: &[(u32, u64, u64)]) {
	unsafe { EV_LEN = events.len(); EV_POS = 0; let mut i = 0; while i < events.len() { EV_TYPE[i] = events[i].0; EV_START[i] = events[i].1; EV_END[i] = events[i].2; i += 1; } }
}
// stream contents are concrete, pairwise distinct ASCII letters (offsets are what matters here; symbolic contents put
// String::from_utf8's validation loop over symbolic bytes out of reach)
fn ascii_stream<const N: usize>() -> [u8; N] { let mut d = [0u8; N]; let mut i = 0; while i < N { d[i] = b'a' + i as u8; i += 1; } d }
// a source that delivers deterministically (whole requests, no faults): buffer sizes stay concrete, which the
// Vec::drain / split_off calls behind trim_to_offset / take_to_offset need (see the note further up)
struct Whole<const N: usize> { data: [u8; N], off: usize }
impl<const N: usize> Read for Whole<N> {
	fn read(&mut self, buf: &mut [u8]) -> io::Result<usize> {
		let k = std::cmp::min(N - self.off, buf.len());
		let mut i = 0; while i < k { buf[i] = self.data[self.off + i]; i += 1; }
		self.off += k;
		Ok(k)
	}
}
fn chunker_over<const N: usize>(data: [u8; N]) -> Chunker<Whole<N>> { Chunker::new(Whole { data, off: 0 }) }
fn is_doc(item: &Option<io::Result<Document>>, data: &[u8], a: usize, b: usize, collection: bool) -> bool {
	match item { Some(Ok(d)) => d.content().as_bytes() == &data[a..b] && d.is_collection() == collection, _ => false }
}

/// Two documents with a gap between them and trailing bytes: stream = doc1[0..2) gap[2..4) doc2[4..7) rest[7..8).
#[kani::proof]
#[kani::unwind(9)]
#[kani::stub(Parser::new, fake_new)]
#[kani::stub(Parser::next_event, scripted_next_event)]
fn chunker_next_two_documents_with_gap() {
	let data = ascii_stream::<8>();
	script(&[(DOC_START, 0, 0), (MAP_START, 0, 1), (DOC_END, 2, 2), (DOC_START, 4, 4), (SCALAR, 4, 7), (DOC_END, 7, 7)]);
	let mut c = chunker_over(data);
	let d1 = c.next();
	assert!(is_doc(&d1, &data, 0, 2, true), "first document: bytes [0,2), a collection");
	// (the code defers emission until the next DOCUMENT-START; emitting earlier would not violate C03 / C05, so only
	// "not later" is demanded)
	assert!(unsafe { EV_POS } <= 4, "a document is emitted at the latest when the NEXT document starts");
	std::mem::forget(d1);
	std::mem::forget(c);
}

/// From the state after the first document was emitted (second document started at offset 4, bytes [4,8) read):
/// the second document is exactly [4,7) -- the gap [2,4) belongs to no document -- and it is a scalar document.
#[kani::proof]
#[kani::unwind(9)]
#[kani::stub(Parser::new, fake_new)]
#[kani::stub(Parser::next_event, scripted_next_event)]
fn chunker_next_second_document() {
	let data = ascii_stream::<8>();
	script(&[(SCALAR, 4, 7), (DOC_END, 7, 7), (STREAM_END, 8, 8)]);
	let mut c = chunker_over(data);
	{
		let r = c.parser.reader_mut();
		r.reader.off = 8;
		r.captured.extend_from_slice(&data[4..8]);
		r.captured_start_offset = 4;
	}
	unsafe { super::parser::verif_kani::EV_DELIVERED = 8; }
	let d2 = c.next();
	assert!(is_doc(&d2, &data, 4, 7, false), "second document: bytes [4,7) and a scalar");
	assert!(c.stream_ended && c.last_document.is_none());
	assert!(unsafe { EV_POS } == 3);
	std::mem::forget(d2);
	std::mem::forget(c);
}

/// At STREAM-END the pending document is emitted exactly once; afterwards next() is None and never asks the
/// parser again.
#[kani::proof]
#[kani::unwind(9)]
#[kani::stub(Parser::new, fake_new)]
#[kani::stub(Parser::next_event, scripted_next_event)]
fn chunker_next_end_of_stream_is_final() {
	let data = ascii_stream::<2>();
	script(&[(STREAM_END, 2, 2)]);
	let mut c = chunker_over(data);
	let pending: bool = kani::any();
	if pending { c.last_document = Some(Document { content: String::from("ab"), kind: Some(DocumentKind::Collection) }); }
	let d = c.next();
	match &d {
		Some(Ok(doc)) => assert!(pending && doc.content() == "ab" && doc.is_collection()),
		None => assert!(!pending),
		Some(Err(_)) => assert!(false),
	}
	assert!(c.stream_ended);
	let after = c.next();
	assert!(after.is_none(), "no document twice");
	assert!(unsafe { EV_POS } == 1, "no event requested after STREAM-END");
	std::mem::forget(d);
	std::mem::forget(c);
}

// (Two further scenarios -- a gap before the first document, and a parser error after the first document -- were
// tried and dropped: both exhausted CBMC's memory although they differ from the scenarios above only in one event.)

/// A parser / reader error is reported as InvalidData whatever its own kind (yaml::input_matches skips the YAML
/// candidate exactly on InvalidData; any other kind aborts detection).
#[kani::proof]
#[kani::unwind(9)]
#[kani::stub(Parser::new, fake_new)]
#[kani::stub(Parser::next_event, scripted_next_event)]
fn chunker_next_wraps_errors_as_invalid_data() {
	let data = ascii_stream::<2>();
	script(&[(0, 0, 0)]);
	let mut c = chunker_over(data);
	let d = c.next();
	match &d { Some(Err(e)) => assert!(e.kind() == io::ErrorKind::InvalidData, "Chunker::next must re-wrap parser errors as InvalidData"), _ => assert!(false) }
	std::mem::forget(d);
	std::mem::forget(c);
}

/// An empty stream has no documents.
#[kani::proof]
#[kani::unwind(9)]
#[kani::stub(Parser::new, fake_new)]
#[kani::stub(Parser::next_event, scripted_next_event)]
fn chunker_next_empty_stream() {
	let data = ascii_stream::<2>();
	script(&[(STREAM_START, 0, 0), (STREAM_END, 0, 0)]);
	let mut c = chunker_over(data);
	assert!(c.next().is_none() && c.next().is_none());
	std::mem::forget(c);
}

// (yaml::input_matches through the real detector / Encoder / Chunker with the scripted libyaml was tried here in four
// concrete scenarios and dropped: the function drops io::Error values, whose drop glue (dyn Error recursion) makes
// CBMC's symbolic execution explode even for concrete outcomes.  Chunker::next's result contract is proved by U-CHK-V.)
