// U-TOML: contract harnesses for the TOML output state machine in src/toml.rs (child module `toml::verif_kani`).
// view(Output) = (used, writer calls so far)
use super::*;
use serde::de::{Deserializer, Visitor as DeVisitor, MapAccess};
use serde::forward_to_deserialize_any;
use crate::Output as _;

static mut DE_TOUCHED: bool = false;
static mut DOC_LEN: usize = 0;
static mut PRETTY_CALLS: usize = 0;

#[derive(Debug)]
struct DeErr;
impl fmt::Display for DeErr { fn fmt(&self, _: &mut fmt::Formatter) -> fmt::Result { Ok(()) } }
impl error::Error for DeErr {}
impl de::Error for DeErr { fn custom<T: fmt::Display>(_: T) -> Self { DeErr } }

struct MockDe { kind: u8 }
impl<'de> Deserializer<'de> for MockDe {
	type Error = DeErr;
	fn deserialize_any<V: DeVisitor<'de>>(self, v: V) -> Result<V::Value, DeErr> {
		unsafe { DE_TOUCHED = true; }
		match self.kind {
			0 => v.visit_bool(kani::any()),
			1 => v.visit_i64(kani::any()),
			2 => v.visit_f64(kani::any()),
			3 => Err(DeErr),
			_ => v.visit_bool(true),
		}
	}
	forward_to_deserialize_any! {
		bool i8 i16 i32 i64 i128 u8 u16 u32 u64 u128 f32 f64 char str string
		bytes byte_buf option unit unit_struct newtype_struct seq tuple
		tuple_struct map struct enum identifier ignored_any
	}
}

// A writer whose write() accepts data only in the shortest pieces (one byte per call) and logs what it accepted:
// code that calls write() once instead of write_all() loses the rest of the document.
struct W { writes: usize, bytes: usize, fail: bool, log: [u8; 4] }
impl W { fn new(fail: bool) -> W { W { writes: 0, bytes: 0, fail, log: [0; 4] } } }
impl Write for W {
	fn write(&mut self, buf: &[u8]) -> io::Result<usize> {
		self.writes += 1;
		if self.fail { return Err(io::ErrorKind::StorageFull.into()); }
		if buf.is_empty() { return Ok(0); }
		let k: usize = 1;
		let mut i = 0; while i < k { if self.bytes + i < 4 { self.log[self.bytes + i] = buf[i]; } i += 1; }
		self.bytes += k;
		Ok(k)
	}
	// write_all is std's loop over write(); running that loop symbolically is what made this mock intractable, so the
	// mock provides its own (as Vec and BufWriter do): everything offered is accepted and logged
	fn write_all(&mut self, buf: &[u8]) -> io::Result<()> {
		self.writes += 1;
		if self.fail { return Err(io::ErrorKind::StorageFull.into()); }
		let mut i = 0; while i < buf.len() { if self.bytes + i < 4 { self.log[self.bytes + i] = buf[i]; } i += 1; }
		self.bytes += buf.len();
		Ok(())
	}
	fn flush(&mut self) -> io::Result<()> { Ok(()) }
}

/// ensure_one_use: first call Ok and marks the output used; every later call is refused; `used` never goes back.
#[kani::proof]
fn toml_ensure_one_use_contract() {
	let mut out = Output::new(W::new(false));
	let used0: bool = kani::any();
	out.used = used0;
	let r = out.ensure_one_use();
	assert!(r.is_ok() == !used0);
	assert!(out.used, "once used, always used");
	assert!(out.w.writes == 0);
	std::mem::forget(r);
}

/// From ANY history in which a document was already accepted: the next document (or input) is refused
/// before the deserializer is touched and without a single writer call.
#[kani::proof]
#[kani::unwind(3)]
#[kani::stub(::toml::to_string_pretty, to_string_pretty_contract)]
fn toml_second_use_refused_before_any_work() {
	let mut out = Output::new(W::new(false));
	out.used = true;
	let k: u8 = kani::any(); kani::assume(k < 4);
	let r = out.transcode_from(MockDe { kind: k });
	assert!(r.is_err(), "a second TOML document was accepted");
	assert!(unsafe { !DE_TOUCHED }, "deserializer touched although the output was already used");
	assert!(out.w.writes == 0, "bytes written for a refused document");
	assert!(out.used);
	std::mem::forget(r);
}

// ---- the value-based entry point (JSON slice input goes through transcode_value) ------------------------
static mut VALUE_TOUCHED: bool = false;
struct MockValue;
impl ser::Serialize for MockValue {
	fn serialize<S: ser::Serializer>(&self, s: S) -> Result<S::Ok, S::Error> {
		unsafe { VALUE_TOUCHED = true; }
		s.serialize_bool(true)
	}
}

/// Same refusal through transcode_value: from any history with `used` set, the value is never looked at,
/// nothing is written, Err is returned.
#[kani::proof]
#[kani::unwind(3)]
#[kani::stub(::toml::to_string_pretty, to_string_pretty_contract)]
fn toml_value_path_second_use_refused() {
	let mut out = Output::new(W::new(false));
	out.used = true;
	let r = out.transcode_value(MockValue);
	assert!(r.is_err(), "a second TOML document was accepted through transcode_value");
	assert!(unsafe { !VALUE_TOUCHED }, "value serialized although the output was already used");
	assert!(out.w.writes == 0, "bytes written for a refused document");
	assert!(out.used);
	std::mem::forget(r);
}

/// First use through transcode_value with a non-table root: refused without a write, and the use is consumed.
#[kani::proof]
#[kani::unwind(3)]
#[kani::stub(::toml::to_string_pretty, to_string_pretty_contract)]
fn toml_value_path_first_use_marks_used() {
	let mut out = Output::new(W::new(false));
	let r = out.transcode_value(MockValue);
	assert!(r.is_err(), "a non-table root was accepted");
	assert!(unsafe { VALUE_TOUCHED });
	assert!(out.w.writes == 0, "bytes written for a refused document");
	assert!(out.used, "the use mark must be set on the value path as well");
	assert!(unsafe { PRETTY_CALLS } == 0);
	std::mem::forget(r);
}

/// First use with a root that is not a table (boolean / integer / float, any payload) or with a failing
/// deserializer: Err, zero writer calls, and the single use is consumed (a later document is refused).
/// One harness per root kind: a toml::Value whose variant is symbolic cannot be dropped under CBMC.
fn non_table_root(k: u8) {
	let mut out = Output::new(W::new(false));
	let r = out.transcode_from(MockDe { kind: k });
	assert!(r.is_err(), "a non-table root was accepted");
	assert!(unsafe { DE_TOUCHED });
	assert!(out.w.writes == 0, "bytes written for a refused document");
	assert!(out.used, "the use mark must be set before deserialization starts");
	assert!(unsafe { PRETTY_CALLS } == 0);
	std::mem::forget(r);
}
#[kani::proof]
#[kani::unwind(3)]
#[kani::stub(::toml::to_string_pretty, to_string_pretty_contract)]
fn toml_bool_root_refused_without_write() { non_table_root(0); }
#[kani::proof]
#[kani::unwind(3)]
#[kani::stub(::toml::to_string_pretty, to_string_pretty_contract)]
fn toml_integer_root_refused_without_write() { non_table_root(1); }
#[kani::proof]
#[kani::unwind(3)]
#[kani::stub(::toml::to_string_pretty, to_string_pretty_contract)]
fn toml_float_root_refused_without_write() { non_table_root(2); }
#[kani::proof]
#[kani::unwind(3)]
#[kani::stub(::toml::to_string_pretty, to_string_pretty_contract)]
fn toml_failed_deserialization_consumes_the_use() { non_table_root(3); }

/// output_value on every non-table variant, payload symbolic: Err(NonTableRoot), zero writer calls, the TOML
/// serializer is never invoked.
fn output_value_rejects(k: u8) {
	let mut out = Output::new(W::new(false));
	let v = match k {
		0 => ::toml::Value::Boolean(kani::any()),
		1 => ::toml::Value::Integer(kani::any()),
		2 => ::toml::Value::Float(kani::any()),
		3 => ::toml::Value::Datetime(::toml::value::Datetime { date: Some(::toml::value::Date { year: 1979, month: 5, day: 27 }), time: None, offset: None }),
		_ => ::toml::Value::Array(Vec::with_capacity(1)),
	};
	let r = out.output_value(&v);
	assert!(r.is_err());
	assert!(out.w.writes == 0);
	assert!(unsafe { PRETTY_CALLS } == 0);
	std::mem::forget(r);
	std::mem::forget(v);
}
#[kani::proof]
#[kani::unwind(3)]
#[kani::stub(::toml::to_string_pretty, to_string_pretty_contract)]
fn toml_output_value_rejects_scalars() { let k: u8 = kani::any(); kani::assume(k < 3); output_value_rejects(k); }
#[kani::proof]
#[kani::unwind(3)]
#[kani::stub(::toml::to_string_pretty, to_string_pretty_contract)]
fn toml_output_value_rejects_datetime() { output_value_rejects(3); }
#[kani::proof]
#[kani::unwind(3)]
#[kani::stub(::toml::to_string_pretty, to_string_pretty_contract)]
fn toml_output_value_rejects_array() { output_value_rejects(4); }

// Assumed contract of toml::to_string_pretty on a table: Ok(a complete document) or Err.
fn to_string_pretty_contract<T: ?Sized + ser::Serialize>(_value: &T) -> Result<String, ::toml::ser::Error> {
	unsafe { PRETTY_CALLS += 1; }
	if kani::any() { return Err(<::toml::ser::Error as ser::Error>::custom("unsupported")); }
	let n: usize = 3;
	unsafe { DOC_LEN = n; }
	let mut s = String::with_capacity(4);
	let mut i = 0; while i < n { s.push((b'a' + i as u8) as char); i += 1; }
	Ok(s)
}

// toml::Table is an IndexMap with std's RandomState, whose seed comes from a syscall Kani cannot model; the
// seed does not influence anything observed here (the table is empty and never hashed).
fn fixed_random_state() -> std::hash::RandomState { unsafe { std::mem::transmute::<(u64, u64), std::hash::RandomState>((1, 2)) } }

/// Table root: the writer receives exactly the serializer's document (also when it only takes short pieces);
/// zero writes when the serializer refuses the value; a failing writer surfaces as Err.
#[kani::proof]
#[kani::unwind(5)]
#[kani::stub(::toml::to_string_pretty, to_string_pretty_contract)]
#[kani::stub(std::hash::RandomState::new, fixed_random_state)]
fn toml_table_root_written_once() {
	let fail: bool = kani::any();
	let mut out = Output::new(W::new(fail));
	let v = ::toml::Value::Table(::toml::Table::new());
	let r = out.output_value(&v);
	let ok = r.is_ok();
	std::mem::forget(r);
	std::mem::forget(v);
	unsafe {
		assert!(PRETTY_CALLS == 1);
		if DOC_LEN == 0 { assert!(!ok && out.w.writes == 0, "bytes written although the TOML serializer refused the value"); }
		else {
			assert!(ok == !fail, "writer failure must surface");
			if ok {
				// a writer that takes short pieces still receives exactly the document, in order (C12)
				assert!(out.w.bytes == DOC_LEN, "the writer did not receive the whole document");
				let mut i = 0; while i < DOC_LEN { assert!(out.w.log[i] == b'a' + i as u8, "document bytes out of order"); i += 1; }
			}
		}
		kani::cover!(ok); kani::cover!(DOC_LEN == 0); kani::cover!(DOC_LEN > 0 && fail);
	}
}
