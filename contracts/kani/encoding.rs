// U-ENC-D / U-ENC-16 / U-ENC-32 / U-ENC-8: contract harnesses for src/yaml/encoding.rs
// (child module `yaml::encoding::verif_kani`).
use super::*;

pub(crate) fn enc_code(e: &Encoding) -> u8 { match e { Encoding::Utf8 => 0, Encoding::Utf16Big => 1, Encoding::Utf32Big => 2, Encoding::Utf16Little => 3, Encoding::Utf32Little => 4 } }

// YAML 1.2.2 section 5.2 table, transcribed row by row, first match wins (0 = UTF-8, 1 = UTF-16BE,
// 2 = UTF-32BE, 3 = UTF-16LE, 4 = UTF-32LE).
pub(crate) fn spec_detect(p: &[u8]) -> u8 {
	let n = p.len();
	let b = |i: usize| p[i];
	if n >= 4 && b(0) == 0 && b(1) == 0 && b(2) == 0xFE && b(3) == 0xFF { return 2; } // UTF-32BE BOM
	if n >= 4 && b(0) == 0 && b(1) == 0 && b(2) == 0 { return 2; }                     // UTF-32BE ASCII first
	if n >= 4 && b(0) == 0xFF && b(1) == 0xFE && b(2) == 0 && b(3) == 0 { return 4; }   // UTF-32LE BOM
	if n >= 4 && b(1) == 0 && b(2) == 0 && b(3) == 0 { return 4; }                      // UTF-32LE ASCII first
	if n >= 2 && b(0) == 0xFE && b(1) == 0xFF { return 1; }                             // UTF-16BE BOM
	if n >= 2 && b(0) == 0 { return 1; }                                                // UTF-16BE ASCII first
	if n >= 2 && b(0) == 0xFF && b(1) == 0xFE { return 3; }                             // UTF-16LE BOM
	if n >= 2 && b(1) == 0 { return 3; }                                                // UTF-16LE ASCII first
	0
}

/// Encoding::detect(p) == the YAML 1.2.2 table for EVERY prefix of length 0..=8 (loop-free, complete);
/// bytes beyond the fourth do not influence the result.
#[kani::proof]
fn enc_detect_matches_yaml_spec() {
	let b: [u8; 8] = kani::any();
	let n: usize = kani::any();
	kani::assume(n <= 8);
	let got = enc_code(&Encoding::detect(&b[..n]));
	assert!(got == spec_detect(&b[..n]));
	let m = if n > 4 { 4 } else { n };
	assert!(got == enc_code(&Encoding::detect(&b[..m])), "only the first four bytes matter");
	assert!(Encoding::DETECT_LEN == 4);
	kani::cover!(got == 0); kani::cover!(got == 1); kani::cover!(got == 2); kani::cover!(got == 3); kani::cover!(got == 4);
}

// ---- Kani's modular route: the same postcondition as a function contract on Encoding::detect -------------
// The engine inserts, above `pub(super) fn detect` in the scratch copy (add-only, cfg_attr(kani)):
//     #[kani::ensures(|r: &Encoding| verif_kani::enc_code(r) == verif_kani::spec_detect(prefix))]
// `detect_function_contract` proves it; harnesses of callers may then use #[kani::stub_verified(Encoding::detect)]
// and are checked against this contract instead of the body (yaml.rs: yaml_slice_fast_path_modular).
impl kani::Arbitrary for Encoding {
	fn any() -> Self { match kani::any::<u8>() % 5 { 0 => Encoding::Utf8, 1 => Encoding::Utf16Big, 2 => Encoding::Utf32Big, 3 => Encoding::Utf16Little, _ => Encoding::Utf32Little } }
}
#[kani::proof_for_contract(Encoding::detect)]
fn detect_function_contract() {
	let b: [u8; 6] = kani::any();
	let n: usize = kani::any();
	kani::assume(n <= 6);
	Encoding::detect(&b[..n]);
}

// ---- a BufRead source that can fail, for the decoders ------------------------------------------------

struct FSrc { data: [u8; 8], len: usize, pos: usize, fail_at: usize, failed: bool }
impl Read for FSrc {
	fn read(&mut self, buf: &mut [u8]) -> io::Result<usize> {
		if self.pos >= self.fail_at { self.failed = true; return Err(io::ErrorKind::ConnectionReset.into()); }
		let avail = std::cmp::min(self.len, self.fail_at) - self.pos;
		let k = std::cmp::min(avail, buf.len());
		let mut i = 0; while i < k { buf[i] = self.data[self.pos + i]; i += 1; }
		self.pos += k;
		Ok(k)
	}
}
impl BufRead for FSrc {
	fn fill_buf(&mut self) -> io::Result<&[u8]> {
		if self.pos >= self.fail_at { self.failed = true; return Err(io::ErrorKind::ConnectionReset.into()); }
		Ok(&self.data[self.pos..std::cmp::min(self.len, self.fail_at)])
	}
	fn consume(&mut self, amt: usize) { self.pos += amt; }
}

fn is_scalar(c: u32) -> bool { c <= 0x10FFFF && !(0xD800..=0xDFFF).contains(&c) }
fn is_surr(u: u16) -> bool { (0xD800..=0xDFFF).contains(&u) }
fn is_lead(u: u16) -> bool { (0xD800..=0xDBFF).contains(&u) }
fn is_trail(u: u16) -> bool { (0xDC00..=0xDFFF).contains(&u) }

/// One step of Utf16Decoder::next from an ARBITRARY decoder state (any pending unit, any position, either
/// endianness, 0..=7 remaining bytes): every 16-bit unit value and every pair is covered in one query.
#[kani::proof]
fn utf16_next_step() {
	let bytes: [u8; 7] = kani::any();
	let n: usize = kani::any();
	kani::assume(n <= 7);
	let big: bool = kani::any();
	let endian = if big { Endianness::Big } else { Endianness::Little };
	let mut dec = Utf16Decoder::new(&bytes[..n], endian);
	let pending: Option<u16> = kani::any();
	dec.buf = pending;
	let pos0: u64 = kani::any();
	kani::assume(pos0 < u64::MAX - 16);
	dec.pos = pos0;
	let unit = |i: usize| -> u16 {
		if big { u16::from_be_bytes([bytes[2*i], bytes[2*i+1]]) } else { u16::from_le_bytes([bytes[2*i], bytes[2*i+1]]) }
	};
	let r = dec.next();
	let have0 = pending.is_some() || n >= 2;
	let u0 = match pending { Some(u) => u, None => if n >= 2 { unit(0) } else { 0 } };
	let consumed0 = if pending.is_some() { 0 } else { 2 };
	match r {
		None => { assert!(pending.is_none() && n == 0, "None only at a clean end of input"); kani::cover!(true); }
		Some(Ok(ch)) => {
			assert!(have0);
			let c = ch as u32;
			assert!(is_scalar(c), "decoded value is a Unicode scalar value (safety condition of from_u32_unchecked)");
			if !is_surr(u0) {
				assert!(c == u0 as u32, "BMP unit decodes to itself");
				assert!(dec.source.len() == n - consumed0, "exactly one unit consumed");
				assert!(dec.buf.is_none());
				kani::cover!(c == 0xFEFF);
			} else {
				assert!(is_lead(u0));
				assert!(n >= consumed0 + 2);
				let u1 = unit(consumed0 / 2);
				assert!(is_trail(u1));
				assert!(c == 0x10000 + (((u0 as u32 - 0xD800) << 10) | (u1 as u32 - 0xDC00)), "surrogate pair arithmetic");
				assert!(dec.source.len() == n - consumed0 - 2, "exactly the pair consumed");
				assert!(dec.buf.is_none());
				kani::cover!(c == 0x10FFFF);
			}
		}
		Some(Err(e)) => {
			// never an error for well-formed input: a BMP unit, or a lead followed by a trail
			assert!(!(have0 && !is_surr(u0)), "well-formed BMP unit must decode");
			if have0 && is_lead(u0) && n >= consumed0 + 2 {
				let u1 = unit(consumed0 / 2);
				assert!(!is_trail(u1), "well-formed pair must decode");
				// the non-trail unit is kept and re-examined by the next call: nothing is skipped
				assert!(dec.buf == Some(u1));
				assert!(e.kind() == io::ErrorKind::InvalidData);
				kani::cover!(true, "lead followed by non-trail");
			}
			if have0 && is_trail(u0) { assert!(e.kind() == io::ErrorKind::InvalidData); assert!(dec.source.len() == n - consumed0); kani::cover!(true, "lone trail"); }
			if have0 && is_lead(u0) && n == consumed0 { assert!(e.kind() == io::ErrorKind::UnexpectedEof); kani::cover!(true, "lead at end of input"); }
			if !have0 { assert!(n == 1 && e.kind() == io::ErrorKind::UnexpectedEof, "odd trailing byte is a truncated code unit"); kani::cover!(true, "odd trailing byte"); }
		}
	}
}

/// Source errors are never turned into end-of-input or characters (C12): with a source that starts
/// failing after `fail_at` bytes, next() returns Some(Err) whenever it had to touch the failing region.
#[kani::proof]
#[kani::unwind(4)]
fn utf16_source_error_propagates() {
	let data: [u8; 8] = kani::any();
	let len: usize = kani::any(); kani::assume(len <= 6);
	let fail_at: usize = kani::any(); kani::assume(fail_at <= len);
	let big: bool = kani::any();
	let mut dec = Utf16Decoder::new(FSrc { data, len, pos: 0, fail_at, failed: false }, if big { Endianness::Big } else { Endianness::Little });
	let r = dec.next();
	if dec.source.failed {
		match &r { Some(Err(e)) => assert!(e.kind() == io::ErrorKind::ConnectionReset || e.kind() == io::ErrorKind::InvalidData), _ => assert!(false, "source failure swallowed") }
	}
	if fail_at == 0 { assert!(matches!(r, Some(Err(_)))); }
	kani::cover!(dec.source.failed && fail_at == 2, "failure met while fetching the trail unit");
}

/// One step of Utf32Decoder::next: every 32-bit value, both endiannesses, 0..=7 remaining bytes.
#[kani::proof]
fn utf32_next_step() {
	let bytes: [u8; 7] = kani::any();
	let n: usize = kani::any();
	kani::assume(n <= 7);
	let big: bool = kani::any();
	let mut dec = Utf32Decoder::new(&bytes[..n], if big { Endianness::Big } else { Endianness::Little });
	let pos0: u64 = kani::any(); kani::assume(pos0 < u64::MAX - 16);
	dec.pos = pos0;
	let r = dec.next();
	let v = if big { u32::from_be_bytes([bytes[0], bytes[1], bytes[2], bytes[3]]) } else { u32::from_le_bytes([bytes[0], bytes[1], bytes[2], bytes[3]]) };
	match r {
		None => { assert!(n == 0); }
		Some(Ok(ch)) => { assert!(n >= 4 && is_scalar(v) && ch as u32 == v); assert!(dec.source.len() == n - 4, "exactly one unit consumed"); assert!(dec.pos == pos0 + 4); kani::cover!(v == 0x10FFFF); }
		Some(Err(e)) => {
			if n >= 4 { assert!(!is_scalar(v), "well-formed unit must decode"); assert!(e.kind() == io::ErrorKind::InvalidData); assert!(dec.source.len() == n - 4); kani::cover!(v == 0xD800); kani::cover!(v == 0x110000); }
			else { assert!(n >= 1 && e.kind() == io::ErrorKind::UnexpectedEof, "1-3 trailing bytes are a truncated code unit"); kani::cover!(n == 3); }
		}
	}
}

#[kani::proof]
#[kani::unwind(6)]
fn utf32_source_error_propagates() {
	let data: [u8; 8] = kani::any();
	let len: usize = kani::any(); kani::assume(len <= 6);
	let fail_at: usize = kani::any(); kani::assume(fail_at <= len);
	let mut dec = Utf32Decoder::new(FSrc { data, len, pos: 0, fail_at, failed: false }, Endianness::Little);
	let r = dec.next();
	if dec.source.failed { assert!(matches!(r, Some(Err(_))), "source failure swallowed"); }
	if fail_at == 0 { assert!(matches!(r, Some(Err(_)))); }
	kani::cover!(dec.source.failed && fail_at == 2);
}

#[kani::proof]
fn endianness_decode_contract() {
	let b: [u8; 4] = kani::any();
	assert!(Endianness::Big.decode_u16([b[0], b[1]]) == (b[0] as u16) << 8 | b[1] as u16);
	assert!(Endianness::Little.decode_u16([b[0], b[1]]) == (b[1] as u16) << 8 | b[0] as u16);
	assert!(Endianness::Big.decode_u32(b) == (b[0] as u32) << 24 | (b[1] as u32) << 16 | (b[2] as u32) << 8 | b[3] as u32);
	assert!(Endianness::Little.decode_u32(b) == (b[3] as u32) << 24 | (b[2] as u32) << 16 | (b[1] as u32) << 8 | b[0] as u32);
}

// ---- ArrayBuffer: view = buf[pos..len] ---------------------------------------------------------------

fn any_arraybuffer() -> (ArrayBuffer<4>, [u8; 4], usize, usize) {
	let buf: [u8; 4] = kani::any();
	let len: usize = kani::any(); kani::assume(len <= 4);
	let pos: usize = kani::any(); kani::assume(pos <= len);
	(ArrayBuffer { buf, pos, len }, buf, pos, len)
}

#[kani::proof]
#[kani::unwind(6)]
fn arraybuffer_ops_contract() {
	let (mut a, buf, pos, len) = any_arraybuffer();
	assert!(a.unread().len() == len - pos);
	assert!(a.is_empty() == (pos == len));
	let op: u8 = kani::any(); kani::assume(op < 4);
	let arg: [u8; 4] = kani::any();
	let al: usize = kani::any(); kani::assume(al <= 4);
	match op {
		0 => { // read: hands out a prefix of the view and drops it from the view
			let mut out = [0u8; 4];
			let n = a.read(&mut out[..al]).unwrap();
			assert!(n == std::cmp::min(al, len - pos));
			let mut i = 0; while i < n { assert!(out[i] == buf[pos + i]); i += 1; }
			assert!(a.pos == pos + n && a.len == len);
		}
		1 => { // write: appends to the view, never beyond SIZE
			let n = a.write(&arg[..al]).unwrap();
			assert!(n == std::cmp::min(al, 4 - len));
			assert!(a.pos == pos && a.len == len + n);
			let mut i = 0; while i < n { assert!(a.buf[len + i] == arg[i]); i += 1; }
			let mut i = pos; while i < len { assert!(a.buf[i] == buf[i]); i += 1; }
		}
		2 => { // set: the view becomes exactly the argument
			a.set(&arg[..al]);
			assert!(a.pos == 0 && a.len == al);
			let mut i = 0; while i < al { assert!(a.unread()[i] == arg[i]); i += 1; }
		}
		_ => { // consume within bounds
			kani::assume(al <= len - pos);
			a.consume(al);
			assert!(a.pos == pos + al && a.len == len);
		}
	}
	assert!(a.pos <= a.len && a.len <= 4, "0 <= pos <= len <= SIZE");
}

// ---- Utf8Encoder -------------------------------------------------------------------------------------

// Independent UTF-8 encoder (bit arithmetic, RFC 3629 table).
fn utf8(c: u32, out: &mut [u8; 4]) -> usize {
	if c < 0x80 { out[0] = c as u8; 1 }
	else if c < 0x800 { out[0] = 0xC0 | (c >> 6) as u8; out[1] = 0x80 | (c & 0x3F) as u8; 2 }
	else if c < 0x10000 { out[0] = 0xE0 | (c >> 12) as u8; out[1] = 0x80 | ((c >> 6) & 0x3F) as u8; out[2] = 0x80 | (c & 0x3F) as u8; 3 }
	else { out[0] = 0xF0 | (c >> 18) as u8; out[1] = 0x80 | ((c >> 12) & 0x3F) as u8; out[2] = 0x80 | ((c >> 6) & 0x3F) as u8; out[3] = 0x80 | (c & 0x3F) as u8; 4 }
}

struct Chars<const K: usize> { items: [char; K], errs: [bool; K], n: usize, taken: usize }
impl<const K: usize> Iterator for Chars<K> {
	type Item = io::Result<char>;
	fn next(&mut self) -> Option<io::Result<char>> {
		if self.taken >= self.n { return None; }
		let i = self.taken; self.taken += 1;
		if self.errs[i] { Some(Err(io::ErrorKind::InvalidData.into())) } else { Some(Ok(self.items[i])) }
	}
}

/// next_char: exactly one leading U+FEFF is skipped, exactly when nothing was read before.
#[kani::proof]
#[kani::unwind(4)]
fn utf8_encoder_next_char_bom() {
	let items: [char; 2] = kani::any();
	let errs: [bool; 2] = kani::any();
	let n: usize = kani::any(); kani::assume(n <= 2);
	let mut enc = Utf8Encoder::new(Chars::<2> { items, errs, n, taken: 0 });
	let started0: bool = kani::any();
	enc.started = started0;
	let r = enc.next_char();
	assert!(enc.started);
	let skip = !started0 && n >= 1 && !errs[0] && items[0] == '\u{FEFF}';
	let idx = if skip { 1 } else { 0 };
	assert!(enc.source.taken == std::cmp::min(n, idx + 1));
	match r {
		None => assert!(n <= idx),
		Some(Ok(c)) => assert!(idx < n && !errs[idx] && c == items[idx]),
		Some(Err(_)) => assert!(idx < n && errs[idx]),
	}
	kani::cover!(skip && matches!(r, Some(Ok('\u{FEFF}'))), "a second BOM is content");
	kani::cover!(started0 && matches!(r, Some(Ok('\u{FEFF}'))), "U+FEFF inside the text is content");
}

/// Step contract of Utf8Encoder::read from an arbitrary encoder state (any pending remainder of 0..=3
/// bytes, started or not) with K characters available: with P = remainder ++ utf8(chars taken, minus one
/// leading BOM iff !started), the bytes written followed by the new remainder equal P; a non-empty
/// remainder means the caller's buffer was filled; a source error is returned, not swallowed.
fn utf8_read_step<const K: usize, const B: usize, const PL: usize>() {
	let c: [char; K] = kani::any();
	let errs: [bool; K] = kani::any();
	let n: usize = kani::any(); kani::assume(n <= K);
	let mut enc = Utf8Encoder::new(Chars::<K> { items: c, errs, n, taken: 0 });
	enc.started = kani::any();
	let rem: [u8; 3] = kani::any();
	let rl: usize = kani::any(); kani::assume(rl <= 3);
	enc.remainder.set(&rem[..rl]);
	let started0 = enc.started;

	let mut buf = [0u8; B];
	let bl: usize = kani::any(); kani::assume(bl <= B);
	let r = enc.read(&mut buf[..bl]);

	let mut p = [0u8; PL];
	let mut pl = 0;
	let mut i = 0; while i < rl { p[pl] = rem[i]; pl += 1; i += 1; }
	let taken = enc.source.taken;
	let mut j = 0; let mut first = true; let mut saw_err = false;
	while j < taken {
		if errs[j] { saw_err = true; break; }
		if !(first && !started0 && c[j] == '\u{FEFF}') {
			let mut t = [0u8; 4]; let l = utf8(c[j] as u32, &mut t);
			let mut k = 0; while k < l { p[pl] = t[k]; pl += 1; k += 1; }
		}
		first = false;
		j += 1;
	}
	match r {
		Ok(w) => {
			assert!(!saw_err, "a source error is never swallowed");
			assert!(w <= bl);
			let rest = enc.remainder.unread();
			assert!(rest.len() <= 3, "at most three bytes of one character are held back");
			assert!(w + rest.len() == pl, "no byte lost, none invented");
			let mut k = 0; while k < w { assert!(buf[k] == p[k], "bytes written are the UTF-8 of the text"); k += 1; }
			let mut k = 0; while k < rest.len() { assert!(rest[k] == p[w + k], "held-back bytes continue the text"); k += 1; }
			if !rest.is_empty() { assert!(w == bl); }
			// (Read allows short reads at any time; only Ok(0) means end of input, so only that is pinned down)
			if w == 0 && bl > 0 { assert!(taken == n, "Ok(0) -- end of input -- only at the end of the source"); }
			kani::cover!(w == bl && !rest.is_empty(), "character straddles the end of the buffer");
			kani::cover!(w < bl, "source ended");
		}
		Err(_) => { assert!(saw_err); kani::cover!(true, "source error propagates"); }
	}
}

#[kani::proof]
#[kani::unwind(7)]
fn utf8_encoder_read_step() { utf8_read_step::<2, 5, 11>(); }

#[kani::proof]
#[kani::unwind(8)]
fn utf8_encoder_read_step_big() { utf8_read_step::<3, 6, 15>(); }

// ---- U-ENC-R: Encoder::from_reader (peek up to 4 bytes, detect, chain them back) ------------------------

/// A BufRead source that hands out at most `chunk` bytes per read / fill_buf.
struct Dribble { data: [u8; 8], len: usize, pos: usize, chunk: usize }
impl Read for Dribble {
	fn read(&mut self, buf: &mut [u8]) -> io::Result<usize> {
		let k = std::cmp::min(std::cmp::min(self.len - self.pos, buf.len()), self.chunk);
		let mut i = 0; while i < k { buf[i] = self.data[self.pos + i]; i += 1; }
		self.pos += k;
		Ok(k)
	}
}
impl BufRead for Dribble {
	fn fill_buf(&mut self) -> io::Result<&[u8]> { let e = std::cmp::min(self.len, self.pos + self.chunk); Ok(&self.data[self.pos..e]) }
	fn consume(&mut self, amt: usize) { self.pos += amt; }
}

// executable statement of the documented contract of std::io::copy: everything the reader yields until EOF is
// written to the writer, in order (std's real body zero-fills an 8 KiB stack buffer first: 8192 loop iterations)
fn io_copy_contract<R: ?Sized + Read, W: ?Sized + Write>(reader: &mut R, writer: &mut W) -> io::Result<u64> {
	let mut total = 0u64; let mut tmp = [0u8; 4]; let mut guard = 0;
	loop {
		guard += 1; if guard > 8 { kani::assume(false); }
		let n = reader.read(&mut tmp)?;
		if n == 0 { return Ok(total); }
		writer.write_all(&tmp[..n])?;
		total += n as u64;
	}
}

// Encoder::new is replaced by a probe that records what from_reader hands it: the detected encoding and the
// reader (at this call site a Chain<ArrayBuffer<4>, Dribble>, recovered with the same size-checked transmute
// trick as in msgpack.rs) -- so the contract of from_reader ITSELF is checked without running the decoders
// through the opaque `impl Read` (that composition timed out even for a 5-byte stream).
static mut NEW_ENC: u8 = 99;
static mut NEW_PREFIX: [u8; 4] = [0; 4];
static mut NEW_PREFIX_LEN: usize = 99;
static mut NEW_SOURCE_POS: usize = 99;
fn encoder_new_probe<R: BufRead>(reader: R, from: Encoding) -> Encoder<R> {
	type Concrete = io::Chain<ArrayBuffer<4>, Dribble>;
	assert!(std::mem::size_of::<R>() == std::mem::size_of::<Concrete>());
	let conc: Concrete = unsafe { std::mem::transmute_copy(&reader) };
	let (prefix, source) = conc.into_inner();
	unsafe {
		NEW_ENC = enc_code(&from);
		let u = prefix.unread();
		NEW_PREFIX_LEN = u.len();
		let mut i = 0; while i < u.len() { NEW_PREFIX[i] = u[i]; i += 1; }
		NEW_SOURCE_POS = source.pos;
	}
	Encoder(EncoderKind::Passthrough(reader))
}

/// from_reader peeks exactly min(4, |stream|) bytes whatever the read sizes, detects the encoding from exactly
/// those bytes, and hands Encoder::new the peeked bytes chained IN FRONT of the rest of the source.
#[kani::proof]
#[kani::unwind(8)]
#[kani::stub(std::io::copy, io_copy_contract)]
#[kani::stub(Encoder::new, encoder_new_probe)]
fn encoder_from_reader_contract() {
	let data: [u8; 8] = kani::any();
	let len: usize = kani::any(); kani::assume(len <= 6);
	let chunk: usize = kani::any(); kani::assume(chunk >= 1 && chunk <= 5);
	let r = Encoder::from_reader(Dribble { data, len, pos: 0, chunk });
	assert!(r.is_ok());
	std::mem::forget(r);
	let peek = if len < 4 { len } else { 4 };
	unsafe {
		assert!(NEW_PREFIX_LEN == peek, "the detection prefix must hold min(4, |stream|) bytes, however the source cuts its reads");
		assert!(NEW_SOURCE_POS == peek, "from_reader consumed more or less than the peek from the source");
		let mut i = 0; while i < peek { assert!(NEW_PREFIX[i] == data[i], "peeked bytes altered"); i += 1; }
		assert!(NEW_ENC == spec_detect(&data[..peek]), "encoding detected from something else than the first four bytes");
	}
	kani::cover!(chunk == 1 && len == 6); kani::cover!(len == 2); kani::cover!(unsafe { NEW_ENC } == 4);
}

// ---- C02: the decoders do not depend on how the source's buffer is refilled ---------------------------------------------
// The step harnesses above read from a slice (fill_buf returns everything).  Here the same bytes come through a
// BufRead whose fill_buf / read hand out at most `chunk` bytes at a time (1..=3, so a code unit may straddle refills):
// the first item decoded must be the same as from the slice -- same character, same error kind, same end.
fn same_item(a: &Option<io::Result<char>>, b: &Option<io::Result<char>>) -> bool {
	match (a, b) {
		(None, None) => true,
		(Some(Ok(x)), Some(Ok(y))) => x == y,
		(Some(Err(x)), Some(Err(y))) => x.kind() == y.kind(),
		_ => false,
	}
}
#[kani::proof]
#[kani::unwind(10)]
fn utf32_refill_schedule_independent() {
	let data: [u8; 8] = kani::any();
	let n: usize = kani::any(); kani::assume(n <= 8);
	let chunk: usize = kani::any(); kani::assume(chunk >= 1 && chunk <= 3);
	let big: bool = kani::any();
	let e = |b: bool| if b { Endianness::Big } else { Endianness::Little };
	let a = Utf32Decoder::new(&data[..n], e(big)).next();
	let b = Utf32Decoder::new(Dribble { data, len: n, pos: 0, chunk }, e(big)).next();
	assert!(same_item(&a, &b), "UTF-32 decoding depends on how the source refills its buffer");
	kani::cover!(matches!(b, Some(Ok(_))) && chunk == 1);
	kani::cover!(matches!(b, Some(Err(_))) && n == 3);
	std::mem::forget(a); std::mem::forget(b);
}
#[kani::proof]
#[kani::unwind(10)]
fn utf16_refill_schedule_independent() {
	let data: [u8; 8] = kani::any();
	let n: usize = kani::any(); kani::assume(n <= 6);
	let chunk: usize = kani::any(); kani::assume(chunk >= 1 && chunk <= 3);
	let big: bool = kani::any();
	let e = |b: bool| if b { Endianness::Big } else { Endianness::Little };
	let a = Utf16Decoder::new(&data[..n], e(big)).next();
	let b = Utf16Decoder::new(Dribble { data, len: n, pos: 0, chunk }, e(big)).next();
	assert!(same_item(&a, &b), "UTF-16 decoding depends on how the source refills its buffer");
	kani::cover!(matches!(b, Some(Ok(c)) if c as u32 > 0xFFFF) && chunk == 1);
	std::mem::forget(a); std::mem::forget(b);
}
