// U-YML: contract harnesses for src/yaml.rs (child module `yaml::verif_kani`).
use super::*;

struct NoOutput;
impl crate::Output for NoOutput {
	fn transcode_from<'de, D, E>(&mut self, _de: D) -> crate::Result<()>
	where D: de::Deserializer<'de, Error = E>, E: de::Error + Send + Sync + 'static { Ok(()) }
	fn transcode_value<S>(&mut self, _value: S) -> crate::Result<()> where S: ser::Serialize { Ok(()) }
	fn flush(&mut self) -> io::Result<()> { Ok(()) }
}

static mut READER_PATH: bool = false;
static mut FAST_PATH: bool = false;

// Assumed contract of serde_yaml::Deserializer::from_str, as a PRECONDITION checked at the call site:
// the text must be the UTF-8 encoding of the YAML stream (by YAML 1.2.2 section 5.2 any other stream
// would be read in a different encoding, which serde_yaml does not do).
fn from_str_contract<'de>(s: &'de str) -> serde_yaml::Deserializer<'de> where 'de: 'de {
	unsafe { FAST_PATH = true; }
	assert!(matches!(Encoding::detect(s.as_bytes()), Encoding::Utf8), "serde_yaml fast path taken for a stream that is not UTF-8 encoded");
	kani::assume(false);
	unreachable!()
}
fn transcode_reader_stub<R: BufRead, O: crate::Output>(_input: R, _output: O) -> crate::Result<()> {
	unsafe { READER_PATH = true; }
	Ok(())
}

/// For every slice (first four bytes symbolic, lengths 0..=4): the serde_yaml fast path is taken only when
/// the stream is UTF-8 encoded per YAML 1.2.2 section 5.2; every other slice goes through the re-encoding
/// reader path -- the same path a reader input takes (C07 "ASCII-only from a file", C02).
#[kani::proof]
#[kani::unwind(6)]
#[kani::stub(serde_yaml::Deserializer::from_str, from_str_contract)]
#[kani::stub(transcode_reader, transcode_reader_stub)]
fn yaml_slice_fast_path_requires_utf8() {
	let b: [u8; 4] = kani::any();
	let n: usize = kani::any();
	kani::assume(n <= 4);
	let r = transcode(input::Handle::from_slice(&b[..n]), NoOutput);
	// reaching here means the reader path was taken (the fast-path stub cuts its path after checking its precondition)
	assert!(unsafe { READER_PATH });
	assert!(r.is_ok());
	std::mem::forget(r);
	kani::cover!(n >= 2 && b[1] == 0 && b[0] == b'a', "ASCII-only UTF-16LE text goes to the re-encoder");
	kani::cover!(n == 4 && b[0] == 0xff, "invalid UTF-8 goes to the re-encoder");
}

/// Positive side: UTF-8 text does take the fast path (so the check above is not vacuous).
fn from_str_probe<'de>(_s: &'de str) -> serde_yaml::Deserializer<'de> where 'de: 'de {
	unsafe { FAST_PATH = true; }
	kani::cover!(true, "fast path reached for UTF-8 text");
	kani::assume(false);
	unreachable!()
}
#[kani::proof]
#[kani::unwind(6)]
#[kani::stub(serde_yaml::Deserializer::from_str, from_str_probe)]
#[kani::stub(transcode_reader, transcode_reader_stub)]
fn yaml_slice_fast_path_taken_for_utf8() {
	let b = *b"a: 1";
	let r = transcode(input::Handle::from_slice(&b[..]), NoOutput);
	std::mem::forget(r);
	assert!(false, "UTF-8 text did not reach serde_yaml's fast path");
}

/// A reader input always goes through transcode_reader (never the fast path).
#[kani::proof]
#[kani::unwind(6)]
#[kani::stub(serde_yaml::Deserializer::from_str, from_str_contract)]
#[kani::stub(transcode_reader, transcode_reader_stub)]
fn yaml_reader_input_uses_reencoder() {
	let data = *b"a: 1";
	let r = transcode(input::Handle::from_reader(&data[..]), NoOutput);
	assert!(unsafe { READER_PATH } && !unsafe { FAST_PATH });
	std::mem::forget(r);
}

// ---- U-YML framing: every document is introduced by "---\n" (C03); writer faults surface (C12) ----------
static mut WLOG: [u8; 8] = [0; 8];
static mut WPOS: usize = 0;
static mut BODY_FAILS: bool = false;
static mut WRITER_FAILS_AT: usize = 99;
fn wlog(b: u8) -> io::Result<()> {
	unsafe {
		if WPOS >= WRITER_FAILS_AT { return Err(io::ErrorKind::StorageFull.into()); }
		if WPOS < 8 { WLOG[WPOS] = b; }
		WPOS += 1;
		Ok(())
	}
}

// Executable statement of core::fmt::write's contract for literal-only arguments (the only kind the framing code
// uses): the text is written to the sink.  Keeps the harnesses decidable when a writer does NOT override write_fmt
// (std's default goes through the formatting machinery, which CBMC cannot afford).
fn fmt_write_literal(output: &mut dyn std::fmt::Write, args: std::fmt::Arguments<'_>) -> std::fmt::Result {
	match args.as_str() { Some(s) => output.write_str(s), None => { assert!(false, "framing text is not a literal"); Ok(()) } }
}
struct LogW;
impl Write for LogW {
	fn write(&mut self, buf: &[u8]) -> io::Result<usize> { let mut i = 0; while i < buf.len() { wlog(buf[i])?; i += 1; } Ok(buf.len()) }
	fn write_all(&mut self, buf: &[u8]) -> io::Result<()> { let mut i = 0; while i < buf.len() { wlog(buf[i])?; i += 1; } Ok(()) }
	fn write_fmt(&mut self, args: std::fmt::Arguments<'_>) -> io::Result<()> {
		match args.as_str() { Some(s) => self.write_all(s.as_bytes()), None => { assert!(false, "framing text is not a literal"); Ok(()) } }
	}
	fn flush(&mut self) -> io::Result<()> { Ok(()) }
}
static mut BODY_CALLS: usize = 0;
static mut BODY_AT: usize = 99;
fn yaml_to_writer_stub<W: Write, T: ?Sized + ser::Serialize>(mut w: W, _value: &T) -> Result<(), serde_yaml::Error> {
	unsafe { BODY_CALLS += 1; BODY_AT = WPOS; }
	if unsafe { BODY_FAILS } { return Err(<serde_yaml::Error as ser::Error>::custom("x")); }
	match w.write_all(b"D") { Ok(()) => Ok(()), Err(e) => Err(<serde_yaml::Error as ser::Error>::custom("w")).map_err(|x: serde_yaml::Error| { std::mem::forget(e); x }) }
}

fn yaml_framing_value(fail_at: usize) {
	unsafe { WRITER_FAILS_AT = fail_at; }
	let mut out = Output::new(LogW);
	let r = crate::Output::transcode_value(&mut out, 7u8);
	let ok = r.is_ok();
	std::mem::forget(r);
	std::mem::forget(out);
	unsafe {
		if fail_at >= 5 {
			assert!(ok && WPOS == 5);
			assert!(WLOG[0] == b'-' && WLOG[1] == b'-' && WLOG[2] == b'-' && WLOG[3] == b'\n' && WLOG[4] == b'D', "YAML output is '---' + newline, then the document");
			assert!(BODY_CALLS == 1 && BODY_AT == 4, "the document is written after its '---' line");
		} else {
			assert!(!ok, "a writer fault was swallowed");
			if fail_at < 4 { assert!(BODY_CALLS == 0, "document body written although its '---' line could not be"); }
		}
	}
}
#[kani::proof]
#[kani::unwind(6)]
#[kani::stub(serde_yaml::to_writer, yaml_to_writer_stub)]
#[kani::stub(core::fmt::write, fmt_write_literal)]
fn yaml_output_value_framing_ok() { yaml_framing_value(99); }
#[kani::proof]
#[kani::unwind(6)]
#[kani::stub(serde_yaml::to_writer, yaml_to_writer_stub)]
#[kani::stub(core::fmt::write, fmt_write_literal)]
fn yaml_output_value_framing_separator_write_fails() { yaml_framing_value(2); }

/// The same obligation as yaml_slice_fast_path_requires_utf8, modular: Encoding::detect is replaced by its
/// verified function contract (kani::stub_verified), so yaml::transcode is checked against the CONTRACT of the
/// detector, not its body.
#[kani::proof]
#[kani::unwind(6)]
#[kani::stub(serde_yaml::Deserializer::from_str, from_str_contract)]
#[kani::stub(transcode_reader, transcode_reader_stub)]
#[kani::stub_verified(Encoding::detect)]
fn yaml_slice_fast_path_modular() {
	let b: [u8; 4] = kani::any();
	let n: usize = kani::any();
	kani::assume(n <= 4);
	let r = transcode(input::Handle::from_slice(&b[..n]), NoOutput);
	assert!(unsafe { READER_PATH });
	assert!(r.is_ok());
	std::mem::forget(r);
}
