// U-YML: contract harnesses for src/yaml.rs (child module `yaml::verif_kani`).
use super::*;

struct NoOutput;
impl crate::Output for NoOutput {
	fn transcode_from<'de, D, E>(&mut self, _de: D) -> crate::Result<()>
	where D: de::Deserializer<'de, Error = E>, E: de::Error + Send + Sync + 'static { Ok(()) }
	fn transcode_value<S>(&mut self, _value: S) -> crate::Result<()> where S: ser::Serialize { Ok(()) }
	fn flush(&mut self) -> io::Result<()> { Ok(()) }
}

static mut READER_PATH: bool = false;
static mut FAST_PATH: bool = false;

// Assumed contract of serde_yaml::Deserializer::from_str, as a PRECONDITION checked at the call site:
// the text must be the UTF-8 encoding of the YAML stream (by YAML 1.2.2 section 5.2 any other stream
// would be read in a different encoding, which serde_yaml does not do).
fn from_str_contract<'de>(s: &'de str) -> serde_yaml::Deserializer<'de> where 'de: 'de {
	unsafe { FAST_PATH = true; }
	assert!(matches!(Encoding::detect(s.as_bytes()), Encoding::Utf8), "serde_yaml fast path taken for a stream that is not UTF-8 encoded");
	kani::assume(false);
	unreachable!()
}
fn transcode_reader_stub<R: BufRead, O: crate::Output>(_input: R, _output: O) -> crate::Result<()> {
	unsafe { READER_PATH = true; }
	Ok(())
}

/// For every slice (first four bytes symbolic, lengths 0..=4): the serde_yaml fast path is taken only when
/// the stream is UTF-8 encoded per YAML 1.2.2 section 5.2; every other slice goes through the re-encoding
/// reader path -- the same path a reader input takes (C07 "ASCII-only from a file", C02).
#[kani::proof]
#[kani::unwind(6)]
#[kani::stub(serde_yaml::Deserializer::from_str, from_str_contract)]
#[kani::stub(transcode_reader, transcode_reader_stub)]
fn yaml_slice_fast_path_requires_utf8() {
	let b: [u8; 4] = kani::any();
	let n: usize = kani::any();
	kani::assume(n <= 4);
	let r = transcode(input::Handle::from_slice(&b[..n]), NoOutput);
	// reaching here means the reader path was taken (the fast-path stub cuts its path after checking its precondition)
	assert!(unsafe { READER_PATH });
	assert!(r.is_ok());
	std::mem::forget(r);
	kani::cover!(n >= 2 && b[1] == 0 && b[0] == b'a', "ASCII-only UTF-16LE text goes to the re-encoder");
	kani::cover!(n == 4 && b[0] == 0xff, "invalid UTF-8 goes to the re-encoder");
}

/// Positive side: UTF-8 text does take the fast path (so the check above is not vacuous).
fn from_str_probe<'de>(_s: &'de str) -> serde_yaml::Deserializer<'de> where 'de: 'de {
	unsafe { FAST_PATH = true; }
	kani::cover!(true, "fast path reached for UTF-8 text");
	kani::assume(false);
	unreachable!()
}
#[kani::proof]
#[kani::unwind(6)]
#[kani::stub(serde_yaml::Deserializer::from_str, from_str_probe)]
#[kani::stub(transcode_reader, transcode_reader_stub)]
fn yaml_slice_fast_path_taken_for_utf8() {
	let b = *b"a: 1";
	let r = transcode(input::Handle::from_slice(&b[..]), NoOutput);
	std::mem::forget(r);
	assert!(false, "UTF-8 text did not reach serde_yaml's fast path");
}

/// A reader input always goes through transcode_reader (never the fast path).
#[kani::proof]
#[kani::unwind(6)]
#[kani::stub(serde_yaml::Deserializer::from_str, from_str_contract)]
#[kani::stub(transcode_reader, transcode_reader_stub)]
fn yaml_reader_input_uses_reencoder() {
	let data = *b"a: 1";
	let r = transcode(input::Handle::from_reader(&data[..]), NoOutput);
	assert!(unsafe { READER_PATH } && !unsafe { FAST_PATH });
	std::mem::forget(r);
}
