"""Back end A: build one Verus file from real source items + contracts, run verus, classify.

Every run re-extracts the items from /repo's working tree (and from the rmp crate version named in
Cargo.lock).  The only edits to extracted text are *insertions* wrapped in marker comments:

    /*@G<*/ ghost text /*@G>*/          requires/ensures/invariant/decreases/proof blocks/attributes
    /*@R<*/(r: /*@R>*/ T /*@R<*/)/*@R>*/  naming the return value
    /*@B<*/i/*@B:_>*/                   naming an unused loop binder (`_` -> `i`)
    /*@X<*/.map(|v| Ok(v))/*@X:.map(Ok)>*/   a mechanical rewrite of executable text (eta-expansion of a constructor
                                        used as a function value, which Verus rejects); the original text is kept in
                                        the marker and restored before the token-equality check
    /*@D:pub(crate)@*/                  a visibility qualifier dropped from an enum (Verus derives `open`
                                        spec functions for enums and rejects them on non-`pub` items)

`check_tokens` removes them again and requires token equality with the source item; a mismatch, a
lost anchor, or an unsupported construct is ScanError -> exit 2 (undecided), never an alarm.
"""
import glob
import json
import os
import re
import subprocess
import time

from . import rustscan as rs
from .rustscan import ScanError

G_OPEN, G_CLOSE = '/*@G<*/', '/*@G>*/'
R_OPEN, R_CLOSE = '/*@R<*/', '/*@R>*/'


def ghost(text):
    return '%s %s %s' % (G_OPEN, text.strip(), G_CLOSE)


def undo_markers(text):
    text = re.sub(r'/\*@G<\*/.*?/\*@G>\*/', ' ', text, flags=re.S)
    text = re.sub(r'/\*@R<\*/.*?/\*@R>\*/', ' ', text, flags=re.S)
    text = re.sub(r'/\*@B<\*/.*?/\*@B:(.*?)>\*/', lambda m: m.group(1), text, flags=re.S)
    text = re.sub(r'/\*@X<\*/.*?/\*@X:(.*?)>\*/', lambda m: m.group(1), text, flags=re.S)   # mechanical rewrite (eta-expansion)
    text = re.sub(r'/\*@D:(.*?)@\*/', lambda m: m.group(1), text, flags=re.S)   # dropped visibility qualifier
    return text


def resolve_source(path_spec, repo):
    """'repo:src/x.rs' or 'crate:rmp:src/marker.rs' (version from Cargo.lock)."""
    if path_spec.startswith('repo:'):
        return os.path.join(repo, path_spec[5:])
    if path_spec.startswith('crate:'):
        _, crate, rel = path_spec.split(':', 2)
        lock = open(os.path.join(repo, 'Cargo.lock')).read()
        m = re.search(r'name = "%s"\nversion = "([^"]+)"' % re.escape(crate), lock)
        if not m:
            raise ScanError('crate %s not in Cargo.lock' % crate)
        hits = glob.glob(os.path.expanduser('~/.cargo/registry/src/*/%s-%s/%s' % (crate, m.group(1), rel)))
        if not hits:
            raise ScanError('crate source %s-%s not in registry' % (crate, m.group(1)))
        return hits[0]
    raise ScanError('bad source spec ' + path_spec)


def _first_brace_depth0(msk, start):
    depth = 0
    for k in range(start, len(msk)):
        c = msk[k]
        if c in '([':
            depth += 1
        elif c in ')]':
            depth -= 1
        elif c == '{' and depth == 0:
            return k
    raise ScanError('no loop body brace')


def annotate_fn(item_text, name, c):
    """Insert the contract `c` into the verbatim function text."""
    msk = rs.mask(item_text)
    m = re.search(r'\bfn\s+%s\b' % re.escape(name), msk)
    popen = msk.index('(', m.end())
    pclose = rs.match_brace(msk, popen)
    body_open = msk.index('{', pclose)
    if '{' in msk[m.end():pclose]:
        raise ScanError('brace in parameter list of ' + name)
    edits = []  # (position, text)  inserted right-to-left
    sig_tail = msk[pclose + 1:body_open]
    am = re.match(r'\s*->\s*', sig_tail)
    if c.get('ret'):
        if not am:
            raise ScanError('no return type on ' + name)
        t0 = pclose + 1 + am.end()
        wm = re.search(r'\bwhere\b', msk[t0:body_open])
        t1 = t0 + wm.start() if wm else body_open
        while item_text[t1 - 1] in ' \t\n':
            t1 -= 1
        edits.append((t0, '%s(%s: %s' % (R_OPEN, c['ret'], R_CLOSE)))
        edits.append((t1, '%s)%s' % (R_OPEN, R_CLOSE)))
    if c.get('spec'):
        edits.append((body_open, '\n' + ghost(c['spec']) + '\n'))
    if c.get('prologue'):
        edits.append((body_open + 1, '\n' + ghost(c['prologue']) + '\n'))
    loops = [lm for lm in re.finditer(r'\b(for|while|loop)\b', msk[body_open:])]
    for lc in c.get('loops', []):
        if lc['ordinal'] >= len(loops):
            raise ScanError('loop %d of %s not found' % (lc['ordinal'], name))
        lm = loops[lc['ordinal']]
        kw_at = body_open + lm.start()
        if lm.group(1) != lc.get('kind', lm.group(1)):
            raise ScanError('loop %d of %s is %s, contract expects %s' % (lc['ordinal'], name, lm.group(1), lc['kind']))
        lbrace = _first_brace_depth0(msk, kw_at)
        if lc.get('binder'):
            bm = re.match(r'for\s+(_)\s+in\b', msk[kw_at:])
            if bm:
                edits.append(('replace', kw_at + bm.start(1), kw_at + bm.end(1), '/*@B<*/%s/*@B:_>*/' % lc['binder']))
            # if the source already names the binder, the invariant must use that name; nothing to do
        if lc.get('ghost_iter'):
            # name the for-loop's ghost iterator: `for pat in EXPR` -> `for pat in it: EXPR` (pure ghost insertion)
            im = re.search(r'\bin\b', msk[kw_at:lbrace])
            if not im:
                raise ScanError('for loop %d of %s: no `in`' % (lc['ordinal'], name))
            edits.append((kw_at + im.end(), ' ' + ghost(lc['ghost_iter'] + ':') + ' '))
        edits.append((lbrace, ghost(lc['clauses']) + ' '))
    for rw in c.get('rewrites', []):
        if rw.get('required') and not re.search(rw['find'], msk[m.end():]):
            raise ScanError('rewrite anchor %r in %s: 0 matches' % (rw['find'], name))
        for mm in re.finditer(rw['find'], msk[m.end():]):
            a, b = m.end() + mm.start(), m.end() + mm.end()
            new = mm.expand(rw['to']) if rw.get('expand') else rw['to']
            edits.append(('replace', a, b, '/*@X<*/%s/*@X:%s>*/' % (new, item_text[a:b])))
    for ins in c.get('inserts', []):
        pats = ins.get('after') or ins['before']
        if isinstance(pats, str):
            pats = [pats]
        hits = []
        for pat in pats:   # alternatives: the first anchor that matches exactly once is used
            hits = [mm for mm in re.finditer(pat, msk[body_open:])]
            if len(hits) == 1:
                break
        if len(hits) != 1:
            raise ScanError('ghost insert anchor %r in %s: %d matches' % (pats, name, len(hits)))
        at = hits[0].end() if ins.get('after') else hits[0].start()
        edits.append((body_open + at, '\n' + ghost(ins['text']) + '\n'))
    for ins in c.get('inserts_all', []):
        hits = [mm for mm in re.finditer(ins['after'], msk[body_open:])]
        if (ins.get('count') is not None and len(hits) != ins['count']) or not hits:
            raise ScanError('ghost insert anchor %r in %s: %d matches, expected %s' % (ins['after'], name, len(hits), ins.get('count', '>= 1')))
        for mm in hits:
            edits.append((body_open + mm.end(), '\n' + ghost(ins['text']) + '\n'))
    out = item_text
    norm = []
    for e in edits:
        norm.append(e if e[0] == 'replace' else ('insert', e[0], e[0], e[1]))
    for _, a, b, text in sorted(norm, key=lambda e: (e[1], e[2]), reverse=True):
        out = out[:a] + text + out[b:]
    pre = ''.join(ghost(a) + '\n' for a in c.get('attrs', []))
    return pre + out


def external_body_fn(item_text, name, c):
    """Keep the verbatim signature, drop the body, attach an assumed contract."""
    msk = rs.mask(item_text)
    m = re.search(r'\bfn\s+%s\b' % re.escape(name), msk)
    body_open = msk.index('{', m.end())
    sig = item_text[:body_open]
    ann = annotate_fn(sig + '{ }', name, dict(ret=c.get('ret'), spec=c.get('spec')))
    ann = ann[:ann.rindex('{')]
    return ghost('#[verifier::external_body]') + '\n' + ann + '{ ' + ghost('unimplemented!()') + ' }', sig


def insert_vacuity_probes(lemmas):
    """Convention of contracts/verus/*.py: a proof fn's body brace is the first `{` at column 0
    after its header.  Insert `assert(false)` at the start of every lemma that has a `requires`."""
    msk = rs.mask(lemmas)
    out, last = [], 0
    for m in re.finditer(r'\bproof fn (\w+)\b', msk):
        b = msk.find('\n{', m.end())
        if b < 0:
            raise ScanError('lemma %s: body brace not at column 0' % m.group(1))
        nxt = re.search(r'\bproof fn\b', msk[m.end():])
        if nxt and m.end() + nxt.start() < b:
            raise ScanError('lemma %s: body brace not at column 0' % m.group(1))
        if re.search(r'\brequires\b', msk[m.end():b]):
            out.append(lemmas[last:b + 2] + ' assert(false); // @vacuity-probe ' + m.group(1) + '\n')
            last = b + 2
    out.append(lemmas[last:])
    return ''.join(out)


class VerusUnit:
    def __init__(self, name, spec_module, repo):
        self.name = name
        self.spec = spec_module
        self.repo = repo
        self.items = []       # dict(name, kind, source, src_line, gen_first_line, gen_last_line, mode)
        self.assumed = []     # names of external_body functions
        self.text = None

    def build(self, vacuity=False):
        parts = [self.spec.HEADER]
        items = []
        for it in self.spec.ITEMS:
            if 'raw' in it:
                parts.append(it['raw'])
                continue
            path = resolve_source(it['src'], self.repo)
            src = open(path).read()
            within = None
            if it.get('within_impl'):
                within = rs.find_impl_span(src, it['within_impl'])
            elif it.get('before'):
                # a module-level item that shares its name with a method: only the text before the given anchor is searched
                bm = re.search(it['before'], rs.mask(src))
                if not bm:
                    raise ScanError('anchor %r not found for %s' % (it['before'], it['name']))
                within = (0, bm.start())
            found = rs.find_item(src, it['kind'], it['name'], within)
            text = found['text']
            rec = dict(name=it['name'], kind=it['kind'], source=path, src_line=rs.line_of(src, found['start']),
                       mode=it.get('mode', 'verbatim'), original=text)
            if it['kind'] == 'fn' and it.get('mode') == 'external_body':
                gen, sig = external_body_fn(text, it['name'], it.get('contract', {}))
                rec['original'] = sig + '{ }'
                rec['check'] = gen.replace('{ ' + ghost('unimplemented!()') + ' }', '{ }')
                self.assumed.append(it['name'])
            elif it['kind'] == 'fn':
                c = dict(it.get('contract', {}))
                if c.get('rewrites'):
                    # `to_assoc`: the replacement is the associated type declared in the same impl block (read from the source)
                    rws = []
                    for rw in c['rewrites']:
                        rw = dict(rw)
                        if rw.get('to_assoc'):
                            am = re.search(r'\btype\s+%s\s*=\s*([^;]+);' % re.escape(rw['to_assoc']), rs.mask(src)[within[0]:within[1]]) if within else None
                            if not am:
                                raise ScanError('associated type %s not found for %s' % (rw['to_assoc'], it['name']))
                            rw['to'] = src[within[0] + am.start(1):within[0] + am.end(1)].strip()
                        rws.append(rw)
                    c['rewrites'] = rws
                if vacuity and re.search(r'\brequires\b', c.get('spec', '')):
                    c['prologue'] = (c.get('prologue', '') + '\n assert(false); // @vacuity-probe ' + it['name'])
                gen = annotate_fn(text, it['name'], c)
                rec['check'] = gen
            else:
                if it.get('drop_vis'):
                    vm = re.match(r'\s*(pub\s*\([^)]*\)|pub)\s+', text)
                    if vm:
                        text = text[:vm.start(1)] + '/*@D:%s@*/' % vm.group(1) + text[vm.end(1):]
                gen = ''.join(a + '\n' for a in found['attrs'] if it.get('keep_attrs', True)) + text
                rec['check'] = text
                rec['original'] = found['text']
            # token equality: generated minus ghost == source item
            if rs.tokens(undo_markers(rec['check'])) != rs.tokens(rec['original']):
                raise ScanError('token mismatch after annotating %s' % it['name'])
            if it.get('wrap'):
                gen = it['wrap'][0] + '\n' + gen + '\n' + it['wrap'][1]
            rec['gen'] = gen
            items.append(rec)
            parts.append(gen)
        lemmas = self.spec.LEMMAS
        if vacuity:
            lemmas = insert_vacuity_probes(lemmas)
        consts = ''
        for cst in getattr(self.spec, 'CONSTS', []):
            path = resolve_source(cst['src'], self.repo)
            found = rs.find_item(open(path).read(), 'const', cst['name'])
            consts += found['text'] + '\n'
        parts.append(consts)
        parts.append(lemmas)
        parts.append(self.spec.FOOTER)
        text = '\n'.join(parts)
        # record generated line ranges
        for rec in items:
            idx = text.index(rec['gen'])
            rec['gen_first_line'] = rs.line_of(text, idx)
            rec['gen_last_line'] = rs.line_of(text, idx + len(rec['gen']))
        self.items = items
        self.text = text
        return text


def run_verus(path, timeout=600):
    t0 = time.time()
    try:
        p = subprocess.run(['verus', path, '--output-json', '--time', '--multiple-errors', '10'],
                           stdout=subprocess.PIPE, stderr=subprocess.PIPE, text=True, timeout=timeout,
                           cwd=os.path.dirname(path),
                           # `env!("CARGO_PKG_NAME")` / `env!("CARGO_PKG_VERSION")` in extracted text (src/main.rs) need the variables cargo would set
                           env=dict(os.environ, CARGO_PKG_NAME=os.environ.get('CARGO_PKG_NAME', 'xt'), CARGO_PKG_VERSION=os.environ.get('CARGO_PKG_VERSION', '0.0.0')))
    except subprocess.TimeoutExpired:
        return dict(timeout=True, wall_s=time.time() - t0, stderr='', json=None, rc=None)
    out = p.stdout
    j = None
    i = out.find('{')
    if i >= 0:
        try:
            j = json.loads(out[i:])
        except Exception:
            j = None
    return dict(timeout=False, wall_s=time.time() - t0, stderr=p.stderr, json=j, rc=p.returncode, stdout=out)


ERR_RE = re.compile(r'^(error|note)(\[E\d+\])?: (.*?)\n\s*--> [^:\n]+:(\d+):(\d+)', re.M)

# Verus messages that are genuine failed proof obligations (as opposed to tool limits / syntax)
OBLIGATION_MSGS = (
    'postcondition not satisfied', 'precondition not satisfied', 'invariant not satisfied',
    'assertion failed', 'possible arithmetic underflow/overflow', 'possible division by zero',
    'decreases not satisfied', 'could not prove termination', 'possible bit shift underflow/overflow',
    'unreachable', 'recommendation not met', 'loop invariant', 'failed precondition', 'index out of bounds',
    'cannot show invariant', 'possible', 'not satisfied',
)


def parse_errors(stderr):
    errs = []
    for m in ERR_RE.finditer(stderr):
        if m.group(1) != 'error':
            continue
        errs.append(dict(msg=m.group(3).strip(), line=int(m.group(4)), col=int(m.group(5)), code=m.group(2)))
    return errs


def classify(res):
    """-> ('ok'|'fail'|'undecided', details)"""
    if res['timeout']:
        return 'undecided', 'verus timeout'
    j = res['json']
    if j is None:
        return 'undecided', 'no JSON from verus: ' + res['stderr'][-2000:]
    vr = j.get('verification-results', {})
    if vr.get('encountered-vir-error') or (vr.get('encountered-error') and vr.get('errors', 0) == 0):
        return 'undecided', 'verus front-end error (unsupported construct / type error)'
    if 'rlimit' in res['stderr'].lower() and 'exceeded' in res['stderr'].lower():
        # a resource limit alone decides nothing; but obligations that failed outright next to it are still failures
        real = [e for e in parse_errors(res['stderr']) if 'rlimit' not in e['msg'].lower() and 'aborting due to' not in e['msg']]
        if not real:
            return 'undecided', 'rlimit exceeded'
    if vr.get('success') and vr.get('errors', 1) == 0:
        return 'ok', ''
    return 'fail', ''


def function_times(j):
    out = {}
    try:
        for mt in j['times-ms']['smt']['smt-run-module-times']:
            for fb in mt.get('function-breakdown', []):
                out[fb['function'].split('::', 1)[-1]] = dict(mode=fb.get('mode:'), micros=fb.get('time-micros'), success=fb.get('success'), rlimit=fb.get('rlimit'))
    except Exception:
        pass
    return out
