"""Registry: which units/harnesses decide which property.  Edit here when adding contracts."""

STANDING_TRUST = [
    'standing: Verus/Z3 and Kani/CBMC/CaDiCaL are sound; Kani\'s std model matches the std xt is built with',
    'standing: 64-bit target (global size_of usize == 8 in Verus; x86_64 in Kani)',
    'standing: all third-party crates (serde_json, serde_yaml/unsafe-libyaml, toml, rmp-serde) are outside the verified text; '
    'only rmp::Marker::from_u8 is extracted and verified',
]

VERUS_UNITS = {
    'U-MP': dict(module='contracts.verus.msgpack_size', min_verified=37, timeout=600, paired_kani=['mp_size_matches_exec_spec'],
                 props=['C18', 'C04', 'C02', 'C03']),
}

# source files under contract -> harness module file; modpath is the Rust module path of the source file
KANI_MODULES = {
    'detect': dict(src='src/detect.rs', file='detect.rs', modpath='detect'),
    'pipecheck': dict(src='src/pipecheck.rs', file='pipecheck.rs', modpath='pipecheck'),
}

ATTR_INSERTS = {
    # module -> list of contract-attribute insertions on real functions (add-only, cfg_attr(kani))
}


def H(unit, module, name, shape, props, tier='quick', **kw):
    d = dict(unit=unit, module=module, name=name, shape=shape, props=props, tier=tier)
    d.update(kw)
    return d


HARNESSES = [
    H('U-DET', 'detect', 'detect_order_and_totality', 'complete', ['C09', 'C10', 'C12', 'C04'],
      bounds='all 3^4 trial outcomes', fns=['detect::detect_format'], timeout=300, min_covers=4,
      assumes=['the four input_matches trials are stubbed: each returns any of Ok(true)/Ok(false)/Err']),
    H('U-DET', 'detect', 'detect_trials_get_rewound_reader', 'complete', ['C09', 'C12'],
      bounds='all 3^4 trial outcomes; 3-byte concrete stream; trials read 1 or 2 bytes', timeout=600, min_covers=5,
      fns=['detect::detect_format', 'input::Handle::borrow_mut', 'input::GuardedCaptureReader::rewind_and_borrow_mut', 'input::CaptureReader::read'],
      assumes=['trial parsers stubbed; stream contents concrete']),
    H('U-PIPE', 'pipecheck', 'every_write_method_diverts_broken_pipe', 'complete', ['C16'],
      bounds='5 Write methods x 6 inner results', timeout=300, min_covers=2,
      fns=['pipecheck::Writer::write', 'pipecheck::Writer::flush', 'pipecheck::Writer::write_all', 'pipecheck::Writer::write_fmt',
           'pipecheck::Writer::write_vectored', 'pipecheck::check_for_broken_pipe'],
      assumes=['exit_for_broken_pipe stubbed by a diverging marker (signal delivery not modelled)']),
    H('U-PIPE', 'pipecheck', 'check_for_broken_pipe_is_identity_otherwise', 'complete', ['C16'],
      bounds='8 error kinds x Ok(any u32)', timeout=300, min_covers=1, fns=['pipecheck::check_for_broken_pipe'],
      assumes=['exit_for_broken_pipe stubbed by a diverging marker']),
]

PROPERTIES = {
    'C16': dict(
        explanation='Contract on the stdout wrapper pipecheck::Writer: every Write method forwards to the same inner method once; '
                    'a BrokenPipe result diverts to exit_for_broken_pipe and never returns; every other result is returned unchanged.',
        assumptions=['raise(SIGPIPE) with SIG_DFL terminates the process silently (libc/kernel; not modelled)',
                     'main() places the wrapper outside the BufWriter and maps other write errors to exit status 1 (main() is not under contract)'],
        not_covered=['signal delivery', 'wrapper placement in main()', 'exit status 1 path in main()']),
    'C18': dict(
        explanation='Verus proves, for all byte strings and all depth limits, that the real next_value_size/total_seq_size/total_map_size '
                    '(and rmp::Marker::from_u8) compute exactly mp_value: Ok(n) iff the first value is complete, well-formed and nested at most d deep. '
                    'Lemmas: monotone in d; every shape of k collections (arrays, maps via value, maps via key) around a scalar is accepted iff k+1 <= d; '
                    'with DEPTH_LIMIT extracted from the source: 1023 accepted, 1024 rejected; rmp_value (assumed spec of rmp_serde) implies mp_value.',
        assumptions=['rmp_value is a hand transcription of rmp-serde 1.1.2 decode.rs (depth_count! on arrays, maps and ext); not machine-checked against the crate',
                     'JSON/YAML/TOML nesting limits are library defaults (not under contract)', 'process stack survival is not modelled'],
        not_covered=['JSON, YAML and TOML depth limits', 'stack safety of the real binary', 'reader-mode verdict is rmp_serde\'s own (assumed spec)']),
}


def full_name(h):
    mp = KANI_MODULES[h['module']]['modpath']
    return (mp + '::' if mp else '') + 'verif_kani::' + h['name']


def kani_harnesses_for(pid, tier):
    out = []
    for h in HARNESSES:
        if pid in h['props'] and (tier == 'thorough' or h['tier'] == 'quick'):
            out.append(h)
    return out


def verus_units_for(pid, tier):
    return [u for u, d in VERUS_UNITS.items() if pid in d['props']]


def attr_inserts_for(modules):
    out = []
    for m in modules:
        out += ATTR_INSERTS.get(m, [])
    return out

NOT_APPLICABLE = {
    'C13': 'process-level observable (exit status, stdout/stderr discipline, tty) decided in main()/Cli::parse_args via env::args_os and process::exit; '
           'Verus accepts none of it and Kani has no model of process exit, the environment or a terminal; no contract within reach carries the property',
    'C15': 'the guarantee is the content of a BufWriter<StdoutLock> at process::exit in main() (flush after each input, destructors skipped); '
           'no function under contract carries it (Translator::flush forwarding is checked under C12)',
}
