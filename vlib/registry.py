"""Registry: which units/harnesses decide which property.  Edit here when adding contracts."""

STANDING_TRUST = [
    'standing: Verus/Z3 and Kani/CBMC/CaDiCaL are sound; Kani\'s std model matches the std xt is built with',
    'standing: 64-bit target (global size_of usize == 8 in Verus; x86_64 in Kani)',
    'standing: all third-party crates (serde_json, serde_yaml/unsafe-libyaml, toml, rmp-serde) are outside the verified text; '
    'only rmp::Marker::from_u8 is extracted and verified',
]

VERUS_UNITS = {
    'U-MP': dict(module='contracts.verus.msgpack_size', min_verified=37, timeout=600,
                 native_search=dict(src='src/msgpack.rs', file='msgpack_search.rs'),
                 props=['C18', 'C04', 'C02', 'C03', 'C06', 'C01']),
    'U-CHK-V': dict(module='contracts.verus.yaml_chunker', min_verified=25, timeout=600,
                    native_search=dict(src='src/yaml/chunker.rs', file='chunker_search.rs'),
                    props=['C03', 'C05', 'C04', 'C02', 'C12', 'C07', 'C10', 'C09', 'C01', 'C06']),
    'U-ENC-V': dict(module='contracts.verus.yaml_encoding', min_verified=15, timeout=600,
                    native_search=dict(src='src/yaml/encoding.rs', file='encoder_search.rs'),
                    props=['C07', 'C02', 'C04', 'C05', 'C12', 'C01']),
    'U-MP-X': dict(module='contracts.verus.msgpack_transcode', min_verified=27, timeout=600,
                   native_search=dict(src='src/msgpack.rs', file='msgpack_search.rs'),
                   props=['C03', 'C18', 'C04', 'C02', 'C06', 'C05', 'C01', 'C12']),
    'U-VAL-V': dict(module='contracts.verus.transcode_value', min_verified=3, timeout=600,
                    props=['C01', 'C06', 'C02']),
    'U-JSN-V': dict(module='contracts.verus.json_transcode', min_verified=3, timeout=600,
                    props=['C03', 'C04', 'C05', 'C02', 'C12', 'C01', 'C06']),
    'U-TML-V': dict(module='contracts.verus.toml_output', min_verified=10, timeout=600,
                    props=['C08', 'C12', 'C11', 'C10', 'C09', 'C02', 'C15', 'C05']),
    'U-LIB-V': dict(module='contracts.verus.lib_translate', min_verified=11, timeout=600,
                    props=['C09', 'C03', 'C12', 'C15', 'C14', 'C02']),
    'U-MAIN-V': dict(module='contracts.verus.cli_main', min_verified=13, timeout=600,
                     props=['C14', 'C03', 'C15', 'C13', 'C16', 'C04', 'C08']),
    'U-CAP-V': dict(module='contracts.verus.input_capture', min_verified=22, timeout=600,
                    native_search=dict(src='src/input.rs', file='capture_search.rs'),
                    props=['C09', 'C02', 'C04', 'C05', 'C12', 'C03', 'C01', 'C10']),
}

# source files under contract -> harness module file; modpath is the Rust module path of the source file
KANI_MODULES = {
    'detect': dict(src='src/detect.rs', file='detect.rs', modpath='detect'),
    'pipecheck': dict(src='src/pipecheck.rs', file='pipecheck.rs', modpath='pipecheck'),
    'msgpack': dict(src='src/msgpack.rs', file='msgpack.rs', modpath='msgpack'),
    'input': dict(src='src/input.rs', file='input.rs', modpath='input'),
    'parser': dict(src='src/yaml/chunker/parser.rs', file='parser.rs', modpath='yaml::chunker::parser'),
    'chunker': dict(src='src/yaml/chunker.rs', file='chunker.rs', modpath='yaml::chunker', requires=['parser']),  # uses parser::verif_kani's scripted libyaml
    'stream': dict(src='src/transcode/stream.rs', file='stream.rs', modpath='transcode::stream'),
    'yaml': dict(src='src/yaml.rs', file='yaml.rs', modpath='yaml', requires=['encoding']),  # stub_verified(Encoding::detect) needs the contract + Arbitrary impl
    'value': dict(src='src/transcode/value.rs', file='value.rs', modpath='transcode::value'),
    'toml': dict(src='src/toml.rs', file='toml.rs', modpath='toml'),
    'json': dict(src='src/json.rs', file='json.rs', modpath='json'),
    'lib': dict(src='src/lib.rs', file='lib.rs', modpath=''),
    'main': dict(src='src/main.rs', file='main.rs', modpath=''),
    'encoding': dict(src='src/yaml/encoding.rs', file='encoding.rs', modpath='yaml::encoding'),
}

ATTR_INSERTS = {
    'encoding': [dict(src='src/yaml/encoding.rs', fn='detect', within_impl=r'\bimpl\s+Encoding\s*\{',
                      text='#[cfg_attr(kani, kani::ensures(|r: &Encoding| verif_kani::enc_code(r) == verif_kani::spec_detect(prefix)))]')],
    # module -> list of contract-attribute insertions on real functions (add-only, cfg_attr(kani))
}


def H(unit, module, name, shape, props, tier='quick', **kw):
    d = dict(unit=unit, module=module, name=name, shape=shape, props=props, tier=tier)
    d.update(kw)
    return d


HARNESSES = [
    H('U-DET', 'detect', 'detect_order_and_totality', 'complete', ['C09', 'C10', 'C12', 'C04', 'C05'],
      bounds='all 3^4 trial outcomes', fns=['detect::detect_format'], timeout=300, min_covers=4,
      assumes=['the four input_matches trials are stubbed: each returns any of Ok(true)/Ok(false)/Err']),
    H('U-DET', 'input', 'detect_trials_get_rewound_reader', 'bounded-size', ['C09', 'C12'],
      bounds='handle in any valid state over a stream <= 4 B; all 3^4 trial outcomes; each trial moves the cursor by any amount', timeout=900, min_covers=1,
      fns=['detect::detect_format', 'input::Handle::borrow_mut', 'input::GuardedCaptureReader::rewind_and_borrow_mut', 'input::CaptureReader::rewind'],
      assumes=['trial parsers stubbed: they inspect and move the capture cursor instead of reading through Box<dyn Read>']),
    H('U-PIPE', 'pipecheck', 'every_write_method_diverts_broken_pipe', 'complete', ['C16', 'C15'],
      bounds='5 Write methods x 6 inner results', timeout=300, min_covers=2,
      fns=['pipecheck::Writer::write', 'pipecheck::Writer::flush', 'pipecheck::Writer::write_all', 'pipecheck::Writer::write_fmt',
           'pipecheck::Writer::write_vectored', 'pipecheck::check_for_broken_pipe'],
      assumes=['exit_for_broken_pipe stubbed by a diverging marker (signal delivery not modelled)']),
    H('U-PIPE', 'pipecheck', 'check_for_broken_pipe_is_identity_otherwise', 'complete', ['C16'],
      bounds='8 error kinds x Ok(any u32)', timeout=300, min_covers=1, fns=['pipecheck::check_for_broken_pipe'],
      assumes=['exit_for_broken_pipe stubbed by a diverging marker']),
    # ---- U-MP-K: discharges the assumed (external_body) specs of the Verus unit on the real bodies ----
    H('U-MP-K', 'msgpack', 'try_read_length_8_contract', 'complete', ['C18', 'C04', 'C02', 'C03'], bounds='every slice of length 0..=8',
      fns=['msgpack::try_read_length_8', 'msgpack::try_read_length'], timeout=300, min_covers=2),
    H('U-MP-K', 'msgpack', 'try_read_length_16_contract', 'complete', ['C18', 'C04', 'C02', 'C03'], bounds='every slice of length 0..=8',
      fns=['msgpack::try_read_length_16', 'msgpack::try_read_length'], timeout=300, min_covers=2),
    H('U-MP-K', 'msgpack', 'try_read_length_32_contract', 'complete', ['C18', 'C04', 'C02', 'C03'], bounds='every slice of length 0..=8',
      fns=['msgpack::try_read_length_32', 'msgpack::try_read_length'], timeout=300, min_covers=2),
    H('U-MP-G', 'msgpack', 'mp_gate_and_error_mapping', 'complete', ['C09', 'C10', 'C12'], bounds='all 256 first bytes, slice length 0..=2, 8 trial outcomes',
      fns=['msgpack::input_matches'], timeout=300, min_covers=3,
      assumes=['match_input_buffer / match_input_reader (the rmp_serde trial) replaced by the assumed rmp_serde contract: any decode::Error; '
               'truncation yields Invalid{Marker,Data}Read(UnexpectedEof) without a source failure']),
    # ---- U-CAP ----
    H('U-CAP', 'input', 'cap_read_step', 'bounded-size', ['C09', 'C02', 'C04', 'C05', 'C12'], bounds='stream <= 4 B, caller buffer <= 3 B; any history',
      fns=['input::CaptureReader::read', 'input::CaptureReader::captured_unread_size'], timeout=600, min_covers=3),
    H('U-CAP', 'input', 'cap_read_step_big', 'bounded-size', ['C09', 'C02', 'C04', 'C05', 'C12'], tier='thorough', bounds='stream <= 6 B, caller buffer <= 4 B; any history',
      fns=['input::CaptureReader::read'], timeout=1800, min_covers=3),
    H('U-CAP', 'input', 'cap_rewind_step', 'bounded-size', ['C09', 'C02'], bounds='stream <= 4 B; any state', fns=['input::CaptureReader::rewind'], timeout=300),
    H('U-CAP', 'input', 'cap_unread_size_never_underflows', 'bounded-size', ['C04', 'C09'], bounds='stream <= 4 B; any state',
      fns=['input::CaptureReader::captured_unread_size', 'input::CaptureReader::captured'], timeout=300),
    H('U-CAP', 'input', 'cap_capture_up_to_size_step', 'bounded-size', ['C09', 'C05', 'C12', 'C04'], bounds='stream <= 4 B, size <= 6; any state',
      fns=['input::CaptureReader::capture_up_to_size'], timeout=900, min_covers=3,
      assumes=['std::io::default_read_to_end stubbed by an executable statement of the documented Read::read_to_end contract']),
    H('U-CAP', 'input', 'cap_capture_up_to_size_step_big', 'bounded-size', ['C09', 'C05', 'C12'], tier='thorough', bounds='stream <= 6 B, size <= 8; any state',
      fns=['input::CaptureReader::capture_up_to_size'], timeout=2400, min_covers=3,
      assumes=['std::io::default_read_to_end stubbed by its documented contract']),
    H('U-CAP', 'input', 'cap_capture_to_end_step', 'bounded-size', ['C09', 'C12', 'C04'], bounds='stream <= 4 B; any state',
      fns=['input::CaptureReader::capture_to_end'], timeout=900, min_covers=2,
      assumes=['std::io::default_read_to_end stubbed by its documented contract']),
    H('U-CAP', 'input', 'handle_borrow_mut_always_rewinds', 'bounded-size', ['C09', 'C02'], bounds='stream <= 4 B; any state',
      fns=['input::Handle::borrow_mut', 'input::GuardedCaptureReader::rewind_and_borrow_mut', 'input::CaptureReader::is_source_eof'], timeout=300, min_covers=2),
    H('U-CAP', 'input', 'handle_borrow_mut_slice_is_identity', 'complete', ['C09', 'C02'], bounds='slice <= 3 B (pointer identity)',
      fns=['input::Handle::from_slice', 'input::Handle::borrow_mut', 'input::Input::from'], timeout=300, allow_unreachable_asserts=True),
    H('U-CAP', 'input', 'input_from_handle_decision', 'bounded-size', ['C05', 'C09', 'C02'], bounds='handle in any valid state over a stream <= 4 B',
      fns=['input::Input::from', 'input::GuardedCaptureReader::rewind_and_take', 'input::CaptureReader::into_inner', 'input::CaptureReader::is_source_eof'], timeout=600, min_covers=3,
      assumes=['which reader is handed on is observed by box identity; reading through the chain (std::io::Chain + FusedReader) is not executed']),
    H('U-CAP', 'input', 'cow_try_from_handle_yields_whole_stream', 'bounded-size', ['C09', 'C02'], tier='thorough', bounds='handle in any valid state over a stream <= 4 B',
      fns=['input::Cow::try_from(Handle)', 'input::CaptureReader::capture_to_end'], timeout=2400, min_covers=1,
      assumes=['std::io::default_read_to_end stubbed by its documented contract']),
    H('U-CAP', 'input', 'fused_reader_contract', 'complete', ['C05', 'C02'], bounds='all 3-step inner result scripts, caller buffer <= 2 B',
      fns=['input::FusedReader::read'], timeout=300, min_covers=2),
    # ---- U-ENC ----
    H('U-ENC-D', 'encoding', 'enc_detect_matches_yaml_spec', 'complete', ['C07', 'C02', 'C09'], bounds='every prefix of length 0..=8',
      fns=['yaml::encoding::Encoding::detect'], timeout=300, min_covers=5),
    H('U-ENC-D', 'encoding', 'detect_function_contract', 'contract', ['C07'], bounds='every prefix of length 0..=6; Kani function contract (proof_for_contract)',
      fns=['yaml::encoding::Encoding::detect'], timeout=900, allow_unreachable_asserts=True),  # its obligation is the inserted ensures clause, not an assert! in the harness file
    H('U-YML', 'yaml', 'yaml_slice_fast_path_modular', 'contract', ['C07', 'C02'], bounds='every slice of length 0..=4; Encoding::detect replaced by its verified contract (stub_verified)',
      fns=['yaml::transcode'], timeout=900,
      assumes=['serde_yaml::Deserializer::from_str precondition-contract', 'transcode_reader stubbed']),
    H('U-ENC-16', 'encoding', 'utf16_next_step', 'complete', ['C07', 'C17', 'C04', 'C05', 'C01'], bounds='every pending/next unit pair, both endiannesses, 0..=7 remaining bytes; any decoder state',
      fns=['yaml::encoding::Utf16Decoder::next', 'yaml::encoding::Utf16Decoder::next_u16', 'yaml::encoding::Endianness::decode_u16'], timeout=600, min_covers=7,
      assumes=['Utf16Decoder.pos < 2^64-16 bytes']),
    H('U-ENC-16', 'encoding', 'utf16_source_error_propagates', 'bounded-size', ['C12', 'C07'], bounds='stream <= 6 B, failure at every offset',
      fns=['yaml::encoding::Utf16Decoder::next', 'yaml::encoding::Utf16Decoder::next_u16'], timeout=300, min_covers=1, allow_unreachable_asserts=True),
    H('U-ENC-32', 'encoding', 'utf32_next_step', 'complete', ['C07', 'C17', 'C04', 'C05', 'C01'], bounds='every 32-bit unit value, both endiannesses, 0..=7 remaining bytes',
      fns=['yaml::encoding::Utf32Decoder::next', 'yaml::encoding::Endianness::decode_u32'], timeout=300, min_covers=4,
      assumes=['Utf32Decoder.pos < 2^64-16 bytes']),
    H('U-ENC-32', 'encoding', 'utf32_source_error_propagates', 'bounded-size', ['C12', 'C07'], bounds='stream <= 6 B, failure at every offset',
      fns=['yaml::encoding::Utf32Decoder::next'], timeout=300, min_covers=1),
    H('U-ENC-32', 'encoding', 'utf32_refill_schedule_independent', 'bounded-size', ['C02', 'C07'], bounds='stream <= 8 B, every byte value; source hands out 1..=3 bytes per refill / read',
      fns=['yaml::encoding::Utf32Decoder::next'], timeout=600, min_covers=2),
    H('U-ENC-16', 'encoding', 'utf16_refill_schedule_independent', 'bounded-size', ['C02', 'C07'], bounds='stream <= 6 B, every byte value; source hands out 1..=3 bytes per refill / read',
      fns=['yaml::encoding::Utf16Decoder::next', 'yaml::encoding::Utf16Decoder::next_u16'], timeout=600, min_covers=1),
    H('U-ENC-16', 'encoding', 'endianness_decode_contract', 'complete', ['C07'], bounds='all 2^32 byte quadruples',
      fns=['yaml::encoding::Endianness::decode_u16', 'yaml::encoding::Endianness::decode_u32'], timeout=300),
    H('U-ENC-8', 'encoding', 'arraybuffer_ops_contract', 'complete', ['C04', 'C07', 'C02'], bounds='every ArrayBuffer<4> state x {read, write, set, consume} x every argument <= 4 B',
      fns=['yaml::encoding::ArrayBuffer::read', 'yaml::encoding::ArrayBuffer::write', 'yaml::encoding::ArrayBuffer::set', 'yaml::encoding::ArrayBuffer::consume',
           'yaml::encoding::ArrayBuffer::unread', 'yaml::encoding::ArrayBuffer::is_empty'], timeout=300),
    H('U-ENC-8', 'encoding', 'utf8_encoder_next_char_bom', 'complete', ['C07'], bounds='every pair of next source items, started or not',
      fns=['yaml::encoding::Utf8Encoder::next_char'], timeout=300, min_covers=2),
    H('U-ENC-8', 'encoding', 'utf8_encoder_read_step', 'bounded-size', ['C07', 'C04', 'C12', 'C02', 'C05'], bounds='caller buffer <= 5 B, <= 2 source characters per step, any remainder; any history',
      fns=['yaml::encoding::Utf8Encoder::read', 'yaml::encoding::Utf8Encoder::next_char'], timeout=900, min_covers=3),
    H('U-ENC-8', 'encoding', 'utf8_encoder_read_step_big', 'bounded-size', ['C07', 'C04', 'C12', 'C02'], tier='thorough', bounds='caller buffer <= 6 B, <= 3 source characters per step, any remainder',
      fns=['yaml::encoding::Utf8Encoder::read'], timeout=1800, min_covers=3),
    H('U-ENC-R', 'encoding', 'encoder_from_reader_contract', 'bounded-size', ['C07', 'C02', 'C05'], bounds='stream <= 6 B (contents symbolic), 1..=5 bytes per read',
      fns=['yaml::encoding::Encoder::from_reader', 'yaml::encoding::ArrayBuffer::write', 'yaml::encoding::ArrayBuffer::unread'], timeout=900, min_covers=3,
      assumes=['std::io::copy stubbed by an executable statement of its documented contract',
               'Encoder::new stubbed by a probe recording the encoding and the chained reader (the decoders behind it are under contract separately)']),
    # ---- U-MP-G reader variant, U-MP-T, C18 depth wiring ----
    H('U-MP-G', 'msgpack', 'mp_gate_reader_source_error_propagates', 'complete', ['C09', 'C12'], bounds='reader input: source fails or yields any one byte',
      fns=['msgpack::input_matches', 'input::Ref::prefix'], timeout=900, min_covers=2,
      assumes=['rmp_serde trial stubbed by its assumed contract', 'std::io::default_read_to_end stubbed by its documented contract']),
    H('U-MP-T', 'msgpack', 'mp_transcode_slice_splits_in_order', 'bounded-size', ['C03', 'C04', 'C02'], bounds='slice input <= 4 B; every split the proved size contract allows',
      fns=['msgpack::transcode (slice loop)'], timeout=600, min_covers=3,
      assumes=['next_value_size replaced by the contract Verus proves for it in the same run (non-empty input: Err or Ok(n), 1 <= n <= len)',
               'Output mocked; rmp_serde deserializers are constructed but never run']),
    H('U-MP-T', 'msgpack', 'mp_slice_deserializers_get_depth_limit', 'bounded-size', ['C18'], bounds='slice input <= 2 B',
      fns=['msgpack::transcode (slice loop)'], timeout=600, min_covers=1,
      assumes=['rmp_serde::Deserializer::set_max_depth stubbed by a probe that records its argument', 'next_value_size replaced by its proved contract']),
    # ---- U-PRS / U-CHK ----
    H('U-PRS', 'parser', 'read_handler_contract', 'bounded-size', ['C17', 'C12', 'C04', 'C02', 'C10', 'C09'], bounds='libyaml buffer <= 4 B (+2 canary bytes); reader may lie about any length or fail',
      fns=['yaml::chunker::parser::Parser::read_handler'], timeout=600, min_covers=4),
    H('U-PRS', 'parser', 'read_handler_contract_big', 'bounded-size', ['C17', 'C12'], tier='thorough', bounds='libyaml buffer <= 8 B (+2 canary bytes)',
      fns=['yaml::chunker::parser::Parser::read_handler'], timeout=1200, min_covers=4),
    H('U-PRS', 'parser', 'located_error_from_parts_contract', 'complete', ['C11', 'C04'], bounds='every mark (index, line, column) and every override offset',
      fns=['yaml::chunker::parser::LocatedError::from_parts'], timeout=300, min_covers=2,
      assumes=['libyaml line / column counters < u64::MAX']),
    H('U-PRS', 'parser', 'parser_new_configures_libyaml', 'complete', ['C04', 'C03', 'C17'], bounds='one construction (the function has no input besides the reader, which it only stores)',
      fns=['yaml::chunker::parser::Parser::new'], timeout=900,
      assumes=['yaml_parser_set_encoding / yaml_parser_set_input replaced by recording probes; yaml_parser_initialize is the real unsafe-libyaml function']),
    H('U-PRS', 'parser', 'parser_drop_frees_every_block', 'complete', ['C17', 'C05'], bounds='one parser (the drop glue has no input)',
      fns=['yaml::chunker::parser::Parser::drop'], timeout=300, kani_args=['--cbmc-args', '--memory-leak-check'],
      assumes=['yaml_parser_delete replaced by a recording probe (libyaml frees its own buffers)']),
    H('U-PRS', 'parser', 'read_handler_null_arguments', 'complete', ['C17'], bounds='each of the three pointer arguments null',
      fns=['yaml::chunker::parser::Parser::read_handler'], timeout=300),
    H('U-PRS', 'parser', 'event_drop_releases_every_event_type', 'complete', ['C17', 'C05'], bounds='all 11 libyaml event types',
      fns=['yaml::chunker::parser::Event::drop', 'yaml::chunker::parser::Event::event_type'], timeout=300,
      assumes=['unsafe_libyaml::yaml_event_delete stubbed by a probe that counts calls and checks its argument']),
    H('U-PRS', 'parser', 'parser_drop_releases_parser_and_read_state', 'complete', ['C17', 'C05'], bounds='-',
      fns=['yaml::chunker::parser::Parser::drop'], timeout=300,
      assumes=['unsafe_libyaml::yaml_parser_delete stubbed by a counting probe; release of the read state observed through a Drop probe on the reader it owns']),
    H('U-PRS', 'parser', 'next_event_resurfaces_stashed_reader_error', 'complete', ['C12'], bounds='error stashed or not',
      fns=['yaml::chunker::parser::Parser::next_event', 'yaml::chunker::parser::Parser::read_state_mut'], timeout=600,
      assumes=['Event::parse_next (libyaml yaml_parser_parse) stubbed: the parse failed']),
    H('U-CHK', 'chunker', 'chunk_reader_read_step', 'bounded-size', ['C03', 'C05', 'C17', 'C04', 'C02', 'C12'], bounds='stream <= 5 B, caller buffer <= 3 B; any state',
      fns=['yaml::chunker::ChunkReader::read'], timeout=600, min_covers=2),
    H('U-CHK', 'chunker', 'chunk_reader_read_step_big', 'bounded-size', ['C03', 'C05', 'C17'], tier='thorough', bounds='stream <= 8 B, caller buffer <= 5 B; any state',
      fns=['yaml::chunker::ChunkReader::read'], timeout=1200, min_covers=2),
    H('U-CHK', 'chunker', 'chunk_reader_take_to_offset', 'bounded-size', ['C03', 'C05', 'C04'], bounds='every size combination start <= o <= delivered <= 4 B (enumerated), contents symbolic',
      fns=['yaml::chunker::ChunkReader::take_to_offset'], timeout=900, assumes=['libyaml marks: start <= offset <= bytes delivered']),
    H('U-CHK', 'chunker', 'chunk_reader_trim_to_offset', 'bounded-size', ['C03', 'C05', 'C04'], bounds='every size combination start <= o <= delivered <= 4 B (enumerated), contents symbolic',
      fns=['yaml::chunker::ChunkReader::trim_to_offset'], timeout=900, assumes=['libyaml marks: start <= offset <= bytes delivered']),
    H('U-CHK', 'chunker', 'chunk_reader_cuts_partition_stream', 'bounded-size', ['C03'], bounds='every size combination start <= a <= b <= c <= 3 B (enumerated), contents symbolic',
      fns=['yaml::chunker::ChunkReader::take_to_offset', 'yaml::chunker::ChunkReader::trim_to_offset'], timeout=1800,
      assumes=['libyaml marks monotone']),
    H('U-CHK', 'chunker', 'chunker_next_two_documents_with_gap', 'bounded', ['C03', 'C05', 'C09', 'C10'], bounds='script: map document [0,2), gap, scalar document [4,7); stream contents concrete distinct letters',
      fns=['yaml::chunker::Chunker::next', 'yaml::chunker::Chunker::new', 'yaml::chunker::ChunkReader::read', 'yaml::chunker::ChunkReader::take_to_offset', 'yaml::chunker::ChunkReader::trim_to_offset',
           'yaml::chunker::Document::is_collection'], timeout=900,
      assumes=['libyaml replaced by a scripted event source with concrete monotone marks (Parser::new / Parser::next_event stubbed); Drop of the parser skipped']),
    H('U-CHK', 'chunker', 'chunker_next_second_document', 'bounded', ['C03', 'C05', 'C04'], bounds='from the state after the first document: script SCALAR, DOC-END(7), STREAM-END',
      fns=['yaml::chunker::Chunker::next', 'yaml::chunker::Chunker::new', 'yaml::chunker::ChunkReader::read', 'yaml::chunker::ChunkReader::take_to_offset', 'yaml::chunker::ChunkReader::trim_to_offset',
           'yaml::chunker::Document::is_collection'], timeout=900,
      assumes=['libyaml replaced by a scripted event source with concrete monotone marks (Parser::new / Parser::next_event stubbed); Drop of the parser skipped']),
    H('U-CHK', 'chunker', 'chunker_next_end_of_stream_is_final', 'bounded', ['C03', 'C05', 'C04'], bounds='from a state with / without a pending document: script STREAM-END; two calls of next()',
      fns=['yaml::chunker::Chunker::next', 'yaml::chunker::Chunker::new', 'yaml::chunker::ChunkReader::read', 'yaml::chunker::ChunkReader::take_to_offset', 'yaml::chunker::ChunkReader::trim_to_offset',
           'yaml::chunker::Document::is_collection'], timeout=900,
      assumes=['libyaml replaced by a scripted event source with concrete monotone marks (Parser::new / Parser::next_event stubbed); Drop of the parser skipped']),
    H('U-CHK', 'chunker', 'chunker_next_wraps_errors_as_invalid_data', 'bounded', ['C09', 'C12'], bounds='script: the parser fails at once with an error of another kind',
      fns=['yaml::chunker::Chunker::next'], timeout=900,
      assumes=['libyaml replaced by a scripted event source (Parser::new / Parser::next_event stubbed)']),
    H('U-CHK', 'chunker', 'chunker_next_empty_stream', 'bounded', ['C03', 'C04'], bounds='script: empty stream',
      fns=['yaml::chunker::Chunker::next', 'yaml::chunker::Chunker::new', 'yaml::chunker::ChunkReader::read', 'yaml::chunker::ChunkReader::take_to_offset', 'yaml::chunker::ChunkReader::trim_to_offset',
           'yaml::chunker::Document::is_collection'], timeout=900,
      assumes=['libyaml replaced by a scripted event source with concrete monotone marks (Parser::new / Parser::next_event stubbed); Drop of the parser skipped']),
    H('U-CHK', 'chunker', 'chunk_reader_overreporting_reader_panics_cleanly', 'bounded-size', ['C17'], bounds='stream <= 4 B, caller buffer <= 3 B; reader over-reports by 1..3',
      fns=['yaml::chunker::ChunkReader::read'], timeout=600, expected_failures=[r'slice/index\.rs', r'slice_index'],
      assumes=['expected outcome is the clean slice-index panic only; any pointer / bounds check failing elsewhere is a violation']),
    # ---- U-TX / U-VAL ----
    H('U-TX', 'stream', 'tx_scalar_forwarding_exact', 'complete', ['C01', 'C06', 'C11', 'C04', 'C02'], bounds='all 17 scalar visitor methods x every value of every type x serializer ok/fails',
      fns=['transcode::stream::Visitor::visit_*', 'transcode::stream::Visitor::forward_scalar', 'transcode::stream::State::take_parent', 'transcode::stream::State::capture_error'],
      timeout=600, min_covers=3),
    H('U-TX', 'stream', 'tx_state_capture_contracts', 'complete', ['C11', 'C04'], bounds='all source/error combinations',
      fns=['transcode::stream::State::capture_error', 'transcode::stream::State::capture_child_error', 'transcode::stream::State::into_error', 'transcode::stream::State::error_source'], timeout=300),
    H('U-TX', 'stream', 'tx_serialize_with_seed_contract', 'complete', ['C11', 'C12', 'C04'], bounds='4 serializer-step behaviours x leaf deserializer ok/fails x leaf serializer ok/fails',
      fns=['transcode::stream::Forwarder::serialize_with_seed', 'transcode::stream::Forwarder::serialize'], timeout=300, min_covers=5),
    H('U-TX', 'stream', 'tx_forwarder_serialize_contract', 'bounded', ['C11', 'C12', 'C04'], bounds='one nested mock collection (<= 2 elements / 1 entry) below the forwarder; failure possible at every step',
      fns=['transcode::stream::Forwarder::serialize', 'transcode::stream::Visitor::visit_seq', 'transcode::stream::Visitor::visit_map'], timeout=900, min_covers=3),
    H('U-TX', 'stream', 'tx_error_attribution_depth1', 'bounded', ['C11', 'C12', 'C01', 'C06', 'C04'], bounds='mock nesting depth 1, <= 2 elements / 1 map entry, failure possible at every step of either side',
      fns=['transcode::stream::transcode', 'transcode::stream::Visitor::visit_seq', 'transcode::stream::Visitor::visit_map', 'transcode::stream::SeqSeed/KeySeed/ValueSeed::deserialize',
           'transcode::stream::Forwarder::serialize', 'transcode::stream::Forwarder::serialize_with_seed'], timeout=900, min_covers=3,
      assumes=['serde protocol: one visit_* per deserialize_any; Serialize::serialize called at most once per element']),
    H('U-TX', 'stream', 'tx_depth_induction_step', 'bounded', ['C11', 'C12', 'C01', 'C06', 'C04', 'C02'],
      bounds='EVERY nesting depth (children in element / key / value position are abstract subtrees that may do anything the subtree contract allows); <= 2 elements / 1 map entry per collection',
      fns=['transcode::stream::Visitor::visit_seq', 'transcode::stream::Visitor::visit_map', 'transcode::stream::SeqSeed/KeySeed/ValueSeed::deserialize',
           'transcode::stream::Forwarder::serialize', 'transcode::stream::Forwarder::serialize_with_seed', 'transcode::stream::State::*'], timeout=900, min_covers=3,
      assumes=['serde protocol: one visit_* per deserialize_any; Serialize::serialize called at most once per element; a (de)serializer stops at the first error']),
    H('U-TX', 'stream', 'tx_depth_induction_base', 'complete', ['C11', 'C12', 'C01', 'C06'], bounds='every scalar leaf outcome (bool / u64 / unit / deserializer failure) x serializer accepts / fails',
      fns=['transcode::stream::Visitor::visit_*', 'transcode::stream::Visitor::forward_scalar'], timeout=300, min_covers=3),
    H('U-TX', 'stream', 'tx_transcode_maps_v_contract_to_error', 'complete', ['C11', 'C12'], bounds='every outcome of an abstract top-level document satisfying the subtree contract',
      fns=['transcode::stream::transcode', 'transcode::stream::State::error_source', 'transcode::stream::State::into_error'], timeout=300, min_covers=3),
    # (not run any more: 32 GB / 14 min and killed when anything else runs beside it; superseded by tx_depth_induction_step, which covers every depth)
    H('U-TX', 'stream', 'tx_error_attribution_depth2', 'bounded', ['C11', 'C12', 'C01'], tier='never', bounds='mock nesting depth 2 (collections in element, key and value position)',
      fns=['transcode::stream::transcode'], timeout=3600, min_covers=3),
    H('U-TX', 'stream', 'tx_json_e2e_seq', 'bounded', ['C01', 'C06', 'C03'], bounds='document [bool, null]; REAL serde_json serializer behind the REAL transcoder',
      fns=['transcode::stream::transcode', 'transcode::stream::Visitor::visit_seq', 'transcode::stream::Visitor::visit_map', 'transcode::stream::Forwarder::serialize_with_seed'], timeout=900, min_covers=0),
    H('U-TX', 'stream', 'tx_json_e2e_map', 'bounded', ['C01', 'C06'], bounds='document {"k": bool}; REAL serde_json serializer behind the REAL transcoder',
      fns=['transcode::stream::transcode', 'transcode::stream::Visitor::visit_seq', 'transcode::stream::Visitor::visit_map', 'transcode::stream::Forwarder::serialize_with_seed'], timeout=900, min_covers=0),
    H('U-TX', 'stream', 'tx_json_e2e_unrepresentable_key_blames_serializer', 'bounded', ['C11', 'C04'], bounds='document {null: null}; REAL serde_json serializer behind the REAL transcoder',
      fns=['transcode::stream::transcode', 'transcode::stream::Visitor::visit_seq', 'transcode::stream::Visitor::visit_map', 'transcode::stream::Forwarder::serialize_with_seed'], timeout=900, min_covers=0),
    H('U-TX', 'stream', 'tx_json_e2e_writer_fault_at_any_byte', 'bounded', ['C11', 'C12'], bounds='document [true,{"k":null}], writer fails at every byte offset of the 17-byte output; REAL serde_json serializer behind the REAL transcoder',
      fns=['transcode::stream::transcode', 'transcode::stream::Visitor::visit_seq', 'transcode::stream::Visitor::visit_map', 'transcode::stream::Forwarder::serialize_with_seed'], timeout=900, min_covers=0),
    H('U-TX', 'stream', 'tx_msgpack_e2e_seq_u64_bool', 'bounded', ['C01', 'C06'], bounds='document [u64, bool], every 64-bit value; REAL rmp_serde serializer behind the REAL transcoder',
      fns=['transcode::stream::transcode', 'transcode::stream::Visitor::visit_u64', 'transcode::stream::Visitor::visit_seq', 'transcode::stream::Visitor::visit_map'], timeout=900, min_covers=2),
    H('U-TX', 'stream', 'tx_msgpack_e2e_map', 'bounded', ['C01', 'C06'], bounds='document {"k": null}; REAL rmp_serde serializer behind the REAL transcoder',
      fns=['transcode::stream::transcode', 'transcode::stream::Visitor::visit_u64', 'transcode::stream::Visitor::visit_seq', 'transcode::stream::Visitor::visit_map'], timeout=900, min_covers=0),
    H('U-VAL', 'value', 'value_scalar_types_and_bits_kept', 'complete', ['C08', 'C01', 'C06', 'C02'], bounds='18 visit forms (all scalar widths, char, unit, three string forms) x every 128-bit payload',
      fns=['transcode::value::Value::deserialize', 'transcode::value::Value::serialize'], timeout=900, min_covers=4),
    # ---- U-YML / U-TOML / U-JSN / U-LIB / U-EXT ----
    H('U-YML', 'yaml', 'yaml_slice_fast_path_requires_utf8', 'complete', ['C07', 'C02'], bounds='every slice of length 0..=4 (the detector reads 4 bytes)',
      fns=['yaml::transcode'], timeout=600, min_covers=2,
      assumes=['serde_yaml::Deserializer::from_str stubbed by its precondition-contract: the text is the UTF-8 encoding of the stream (Encoding::detect == Utf8)',
               'transcode_reader stubbed (its parts are under contract in U-ENC / U-CHK)']),
    H('U-YML', 'yaml', 'yaml_slice_fast_path_taken_for_utf8', 'complete', ['C07'], bounds='one concrete UTF-8 text (vacuity guard for the harness above)',
      fns=['yaml::transcode'], timeout=600, min_covers=1, allow_unreachable_asserts=True),
    H('U-YML', 'yaml', 'yaml_reader_input_uses_reencoder', 'complete', ['C07', 'C02'], bounds='one concrete reader input', fns=['yaml::transcode'], timeout=600),
    H('U-TOML', 'toml', 'toml_ensure_one_use_contract', 'complete', ['C08'], bounds='both states', fns=['toml::Output::ensure_one_use'], timeout=300),
    H('U-TOML', 'toml', 'toml_second_use_refused_before_any_work', 'complete', ['C08'], bounds='any history with used == true; 4 deserializer behaviours',
      fns=['toml::Output::transcode_from', 'toml::Output::ensure_one_use'], timeout=900),
    H('U-TOML', 'toml', 'toml_value_path_second_use_refused', 'complete', ['C08'], bounds='any history with used == true; value-based entry point (JSON slice input)',
      fns=['toml::Output::transcode_value', 'toml::Output::ensure_one_use'], timeout=2400),
    H('U-TOML', 'toml', 'toml_value_path_first_use_marks_used', 'complete', ['C08'], tier='thorough', bounds='first use through transcode_value, boolean root',
      fns=['toml::Output::transcode_value', 'toml::Output::output_value', 'toml::Output::ensure_one_use'], timeout=3600,
      assumes=['runs the real toml::Value::try_from on one scalar (~600 s)']),
    H('U-TOML', 'toml', 'toml_bool_root_refused_without_write', 'complete', ['C08', 'C11'], bounds='boolean root, any payload',
      fns=['toml::Output::transcode_from', 'toml::Output::output_value', 'toml::Output::ensure_one_use'], timeout=900,
      assumes=['runs the real toml::Value::deserialize on one scalar event; toml::to_string_pretty stubbed (must not be reached)']),
    H('U-TOML', 'toml', 'toml_integer_root_refused_without_write', 'complete', ['C08', 'C11'], bounds='integer root, any payload',
      fns=['toml::Output::transcode_from', 'toml::Output::output_value', 'toml::Output::ensure_one_use'], timeout=900,
      assumes=['runs the real toml::Value::deserialize on one scalar event; toml::to_string_pretty stubbed (must not be reached)']),
    H('U-TOML', 'toml', 'toml_float_root_refused_without_write', 'complete', ['C08', 'C11'], bounds='float root, any payload',
      fns=['toml::Output::transcode_from', 'toml::Output::output_value', 'toml::Output::ensure_one_use'], timeout=900,
      assumes=['runs the real toml::Value::deserialize on one scalar event; toml::to_string_pretty stubbed (must not be reached)']),
    H('U-TOML', 'toml', 'toml_failed_deserialization_consumes_the_use', 'complete', ['C08', 'C11'], bounds='deserializer fails',
      fns=['toml::Output::transcode_from', 'toml::Output::output_value', 'toml::Output::ensure_one_use'], timeout=900,
      assumes=['runs the real toml::Value::deserialize on one scalar event; toml::to_string_pretty stubbed (must not be reached)']),
    H('U-TOML', 'toml', 'toml_output_value_rejects_scalars', 'complete', ['C08'], bounds='Boolean / Integer / Float roots, any payload',
      fns=['toml::Output::output_value'], timeout=900, assumes=['toml::to_string_pretty stubbed (must not be reached)']),
    H('U-TOML', 'toml', 'toml_output_value_rejects_datetime', 'complete', ['C08'], bounds='Datetime root',
      fns=['toml::Output::output_value'], timeout=900, assumes=['toml::to_string_pretty stubbed (must not be reached)']),
    H('U-TOML', 'toml', 'toml_output_value_rejects_array', 'complete', ['C08'], bounds='Array root',
      fns=['toml::Output::output_value'], timeout=900, assumes=['toml::to_string_pretty stubbed (must not be reached)']),
    H('U-TOML', 'toml', 'toml_table_root_written_once', 'complete', ['C08', 'C12', 'C11'], bounds='serializer Ok(3-byte document) / Err; writer failing, or accepting one byte per write call',
      fns=['toml::Output::output_value'], timeout=600, min_covers=3,
      assumes=['toml::to_string_pretty stubbed by its assumed contract (Ok(document) or Err)', 'std::hash::RandomState::new stubbed by a fixed seed (table is empty, never hashed)']),
    H('U-JSN', 'json', 'json_input_matches_mapping_ok', 'complete', ['C09', 'C12'], bounds='every slice <= 3 B; trial accepts',
      fns=['json::input_matches'], timeout=900, min_covers=1,
      assumes=['serde_json trial stubbed by its assumed contract; serde_json::Error::is_io stubbed by the ghost category of the error the stub produced']),
    H('U-JSN', 'json', 'json_input_matches_mapping_io_error', 'complete', ['C09', 'C12'], bounds='every slice <= 3 B; source fails during the trial',
      fns=['json::input_matches'], timeout=900, min_covers=1,
      assumes=['serde_json trial stubbed by its assumed contract; serde_json::Error::is_io stubbed by the ghost category of the error the stub produced']),
    H('U-JSN', 'json', 'json_input_matches_real_syntax_error_is_skipped', 'complete', ['C09', 'C10'], bounds='trial outcome: a REAL serde_json syntax-category error (parser run on the concrete text `!`)',
      fns=['json::input_matches'], timeout=600, assumes=['match_input_str / match_input_reader replaced by the real serde_json parser on a concrete one-token text']),
    H('U-JSN', 'json', 'json_input_matches_real_eof_error_is_skipped', 'complete', ['C09', 'C10'], bounds='trial outcome: a REAL serde_json EOF-category error (parser run on the empty text)',
      fns=['json::input_matches'], timeout=600, assumes=['match_input_str / match_input_reader replaced by the real serde_json parser on a concrete empty text']),
    H('U-JSN', 'json', 'json_output_value_framing_ok', 'complete', ['C05', 'C03', 'C12'], bounds='one document; serializer body stubbed',
      fns=['json::Output::transcode_value'], timeout=600, assumes=['serde_json::to_writer stubbed: writes a marker through the writer or fails']),
    H('U-JSN', 'json', 'json_output_value_framing_body_fails', 'complete', ['C03', 'C12'], bounds='serializer refuses the document',
      fns=['json::Output::transcode_value'], timeout=600, assumes=['serde_json::to_writer stubbed']),
    H('U-JSN', 'json', 'json_output_value_framing_newline_write_fails', 'complete', ['C12'], bounds='writer fails on the framing newline',
      fns=['json::Output::transcode_value'], timeout=600, assumes=['serde_json::to_writer stubbed']),
    H('U-JSN', 'json', 'json_output_from_null_document_is_one_line', 'complete', ['C05', 'C03', 'C01'], bounds='document = null; REAL transcoder and REAL serde_json serializer',
      fns=['json::Output::transcode_from', 'transcode::stream::transcode'], timeout=600),
    H('U-JSN', 'json', 'json_output_from_true_document_is_one_line', 'complete', ['C05', 'C03', 'C01'], bounds='document = true; REAL transcoder and REAL serde_json serializer',
      fns=['json::Output::transcode_from', 'transcode::stream::transcode'], timeout=600),
    H('U-JSN', 'json', 'json_output_from_failed_document_not_framed', 'complete', ['C03', 'C11', 'C12'], bounds='deserializer fails; REAL transcoder and REAL serde_json serializer',
      fns=['json::Output::transcode_from', 'transcode::stream::transcode'], timeout=600),
    H('U-JSN', 'json', 'json_output_from_writer_fault_at_newline', 'complete', ['C12', 'C11'], bounds='writer fails exactly at the framing newline; REAL transcoder and REAL serde_json serializer',
      fns=['json::Output::transcode_from', 'transcode::stream::transcode'], timeout=600),
    H('U-YML', 'yaml', 'yaml_output_value_framing_ok', 'complete', ['C05', 'C03', 'C12'], bounds='one document; serializer body stubbed',
      fns=['yaml::Output::transcode_value'], timeout=600, assumes=['serde_yaml::to_writer stubbed: writes a marker through the writer or fails']),
    H('U-YML', 'yaml', 'yaml_output_value_framing_separator_write_fails', 'complete', ['C12'], bounds='writer fails inside the --- line',
      fns=['yaml::Output::transcode_value'], timeout=600, assumes=['serde_yaml::to_writer stubbed']),
    H('U-LIB', 'lib', 'translator_flush_forwards_to_writer', 'complete', ['C12', 'C16', 'C15'], bounds='4 output formats x 4 writer flush results',
      fns=['Translator::flush', 'Dispatcher::flush', 'json::Output::flush', 'msgpack::Output::flush', 'toml::Output::flush', 'yaml::Output::flush'], timeout=300, min_covers=2),
    H('U-EXT', 'main', 'extension_table', 'complete', ['C14'], bounds='every extension byte string of length 0..=7, present or absent',
      fns=['main::InputPath::extension_format'], timeout=900, min_covers=3,
      assumes=['std::path::Path::extension stubbed by its std contract (returns None or the last extension)']),
    H('U-EXT', 'main', 'extension_of_stdin_is_none', 'complete', ['C14'], bounds='-', fns=['main::InputPath::extension_format'], timeout=300),
    H('U-EXT', 'main', 'format_names_table', 'complete', ['C14'], bounds='every string <= 3 B plus the four long names', fns=['main::try_parse_format'], timeout=600),
]

PROPERTIES = {
    'C01': dict(
        explanation='xt owns the middle link parser -> serde events -> transcoder -> serializer calls. The text / bytes each parser is given are exactly the document\'s: the chunk handed to serde_yaml is stream[start..end] of the document, untrimmed (U-CHK-V), the MessagePack and JSON loops offer every value once (U-MP-X, U-JSN-V), and bytes captured during detection are replayed, never dropped (U-CAP-V). Contract: the serializer receives exactly the event '
                    'sequence the deserializer produced. Scalars (17 visit methods of the streaming transcoder, 21 visit forms of transcode::Value): same type, '
                    'bit-identical value, for every value (complete). Sequences/maps: serialize_seq/map(size_hint), then elements / key-value alternation in '
                    'deserializer order, then end(), compared event by event on the fly (bounded mock depth; depth induction machine-checked by tx_depth_induction_step). '
                    'Text of UTF-16/32 YAML reaches the parser code point for code point: decoder step contracts (complete) and the Verus re-encoder contract (U-ENC-V). '
                    'transcode::Value composites (Verus U-VAL-V, any length): visit_seq / visit_map keep exactly the elements / entries the deserializer handed out, in order; a map is serialized as serialize_map(Some(len)), its entries in Vec order, end().',
        assumptions=['every parser and writer crate is faithful (serde_json, serde_yaml, toml, rmp-serde: assumed)',
                     'JSON float parsing without serde_json float_roundtrip is known NOT to be exact (one-ULP loss on ~10% of 17-digit floats): xt contains no float-parsing code, so no contract on xt code can express it',
                     'TOML table reordering and preserve_order are a dependency feature'],
        not_covered=['parsers and writers', 'JSON float ULP loss (known, outside this technique)', 'nesting deeper than the mock bound (argued by the per-function contracts, checked to depth 2 in the thorough tier)',
                     'nested transcode::Value sequences on the serializer side go through serde\'s own Vec<T> impl (stand-in); the recursion itself is by serde (Value <-> Vec<Value>)']),
    'C02': dict(
        explanation='Schedule transparency of every reader xt owns (CaptureReader, FusedReader chain, Utf16/Utf32 decoders, Utf8Encoder, ChunkReader): the bytes '
                    'handed to the consumer are a function of the bytes delivered by the source for every pattern of short reads (step-inductive contracts). '
                    'MessagePack slice vs reader: Verus proves next_value_size == mp_value and rmp_value => mp_value, so the slice cut is where rmp_serde stops. '
                    'YAML slice fast path only for UTF-8-encoded streams (repaired defect F2). JSON slice input is translated through transcode::Value and JSON reader input through the streaming transcoder: both are proved to be the identity on serde events (U-VAL-V / value_scalar_types_and_bits_kept; tx_scalar_forwarding_exact / tx_depth_induction_step), and U-JSN-V proves that both loops offer every document once, so the two supply modes hand the serializer the same events. '
                    'Verus (U-CAP-V, U-ENC-V, U-CHK-V) proves the step contracts of CaptureReader::read, Utf8Encoder::read and ChunkReader::read on the verbatim code for EVERY buffer size and stream length, '
                    'and theorems over those contracts (reads after a rewind replay the stream from byte 0; any read schedule of the re-encoder concatenates to utf8(text)); the Kani harnesses run the same code against the real std within size bounds.',
        assumptions=['std::io::{Read, Write, Cursor, Take}, Vec::drain, mem::replace, char::encode_utf8, Iterator (vstd prophetic model) carry assumed specifications in the Verus units (listed in coverage.trusted_base)', 'BufReader and the parsers\' own readers honour the Read contract', 'rmp_value: assumed spec of rmp_serde',
                     'serde_yaml::Deserializer::from_str precondition-contract'],
        not_covered=['JSON StreamDeserializer vs end() loop (`truefalse`)', 'serde_yaml void document for comment-only files', 'toml::Value Serialize- vs Deserialize-path on repeated keys',
                     'prefix-comparability of partial outputs (all four are differences between two entry points of third-party crates; known from the property text, outside this technique)']),
    'C03': dict(
        explanation='Document cutting is an ordered partition: msgpack::transcode hands the output rest[..n] with n the exact size of the first value (Verus, unbounded; '
                    'loop wiring: Verus U-MP-X proves on the verbatim msgpack::transcode, against the proved next_value_size, that the documents offered to the output are exactly mp_split(input): successive complete values, in order, no gap, no overlap, for every input length; Kani U-MP-T runs the same loop against the real rmp_serde constructors), consecutive, non-empty, covering the input; ChunkReader::take_to_offset / trim_to_offset '
                    'return / keep exactly stream[start..o] / stream[o..delivered]. JSON: U-JSN-V proves on the verbatim json::transcode that a document is requested only after end() reported remaining input (zero-document inputs contribute nothing and do not fail) and that every value of the slice stream is offered once. CLI: U-MAIN-V proves one translate call per input path, in order, on the one translator created before the loop. Verus (U-CHK-V) proves Chunker::next on the verbatim code for ALL event histories against an assumed libyaml '
                    'event contract: the k-th Some(Ok(doc)) is exactly stream[start_k..end_k] of the k-th document of the event history (no gap byte, no neighbour byte, kind of its first content event), '
                    'emitted exactly once and in order, None only after every completed document was emitted; documents of a monotone history are ordered disjoint intervals (theorem); '
                    'yaml::transcode_reader (verbatim, same unit) offers every document the chunker emits to the output exactly once, in order, with exactly its bytes, and has offered all of them when it returns Ok.',
        assumptions=['libyaml event contract (assumed, stated as the stand-in Parser::next_event contract in U-CHK-V): one event per call, marks monotone, within the bytes delivered and on UTF-8 boundaries, '
                     'bytes reach libyaml only through ChunkReader::read, DOCUMENT-END is followed by DOCUMENT-START or STREAM-END', 'termination of the event loop in Chunker::next rests on libyaml reaching a document boundary (not proved)'],
        not_covered=['writeln!/--- framing in json::Output / yaml::Output beyond the framing harnesses (real serializers)']),
    'C04': dict(
        explanation='Panic-freedom / termination of every function under contract: Verus checks bounds, overflow and decreases for the size calculator (all inputs); every Kani '
                    'harness checks all panics, unwraps, index, overflow and pointer obligations of the real code under its stated precondition, incl. stream.rs '
                    'into_error().unwrap() and take_parent().expect() under adversarial mocks, CaptureReader index arithmetic, ArrayBuffer/Utf8Encoder slicing, decoder arithmetic. '
                    'Verus additionally proves absence of overflow / out-of-bounds / failed unwrap for every size in CaptureReader, FusedReader, Handle::borrow_mut, Ref::prefix (U-CAP-V), ArrayBuffer<SIZE>, Utf8Encoder::read incl. termination of both loops (U-ENC-V), '
                    'ChunkReader and Chunker::next incl. String::from_utf8(chunk).unwrap() under the libyaml mark assumption (U-CHK-V).',
        assumptions=['all dependency code is total', 'libyaml marks valid and on UTF-8 boundaries (String::from_utf8(chunk).unwrap() in Chunker::next is proved panic-free UNDER this assumption)'],
        not_covered=['stack depth', 'hangs inside parsers (e.g. while de.end().is_err()); termination of Chunker::next', 'alias bombs / huge declared lengths inside rmp/serde', 'Parser::new/next_event (libyaml calls)']),
    'C05': dict(
        explanation='Footprint contracts on the buffers xt owns: CaptureReader::read consults the source at most once and never for more than fits the caller buffer (no read-ahead); '
                    'capture_up_to_size never captures beyond max(len, size); FusedReader drops the captured prefix at its first EOF; ChunkReader holds exactly stream[start..delivered] '
                    'and performs one inner read per read; decoders consume exactly one character\'s units; Utf8Encoder holds back at most 3 bytes. Verus proves the same footprints for every size: '
                    'capture_up_to_size never beyond max(len, size) (U-CAP-V); Chunker invariant captured == stream[cut_point..] after every event, i.e. memory = bytes since the current document start (U-CHK-V); '
                    'Utf8Encoder remainder <= 3 bytes and only when the caller buffer is full (U-ENC-V). Detection: the only trial that buffers a whole reader (TOML, up to 2 MiB: U-TML-V) runs after the three streaming trials and only if all of them said no (detect_order_and_totality, all 3^4 outcomes).',
        assumptions=['BufReader 8 KiB read-ahead', 'libyaml look-ahead and Chunker::next one-document deferral (so the k+2 constant is not proved)'],
        not_covered=['heap measurements', 'first-document-after-one-read for json/msgpack transcode loops (needs the real parsers)']),
    'C06': dict(
        explanation='Derived from the C01 contracts: the transcoder and transcode::Value are the identity on event sequences (same harnesses as C01); re-reading xt\'s own MessagePack output from a slice goes through the size calculator, which Verus proves exact and overflow-free for every input (U-MP, U-MP-X), so writer_B . T . parser_B is a fixed point '
                    'whenever parser_B(writer_B(v)) = v for the crate pair (assumed). Claimed so that a transcoder mutant is reported under C06 as well.',
        assumptions=['reader(writer(v)) = v for each third-party crate pair', 'JSON float caveat as C01'],
        not_covered=['everything about the crates\' own round trips']),
    'C07': dict(
        explanation='Encoding::detect == YAML 1.2.2 section 5.2 table for every prefix (complete); Utf16Decoder::next / Utf32Decoder::next step contracts from arbitrary state over every '
                    'code unit value (complete): Ok(c) iff well-formed, c the exact scalar value, exactly those units consumed; every ill-formed class => Err, never a fabricated '
                    'character; Utf8Encoder::read step contract: bytes out ++ remainder == remainder ++ utf8(chars), BOM skipped exactly once; yaml::transcode takes the '
                    'serde_yaml fast path only for UTF-8-encoded slices (repaired defect F2; Kani harness on the real function, and Verus U-CHK-V on the verbatim yaml::transcode: serde_yaml::Deserializer::from_str is reachable only behind from_utf8 Ok AND Encoding::detect == Utf8, for every slice). Verus (U-ENC-V): Utf8Encoder::read / next_char / ArrayBuffer on the verbatim code for EVERY buffer size and character sequence against an '
                    'independent bit-level definition of UTF-8, and the stream theorem: any schedule of read() calls hands out exactly utf8(text without one leading BOM).',
        assumptions=['libyaml / serde_yaml treat the re-encoded bytes like native UTF-8 input (they receive identical bytes)', 'decoder byte positions < 2^64-16',
                     'char::encode_utf8 == utf8_bytes (assumed spec; RFC 3629 table) and vstd\'s prophetic Iterator model in U-ENC-V'],
        not_covered=['Encoder::from_reader peek-and-chain (io::copy under CBMC)', 'that yaml::input_matches hands Encoder::new the encoding it detected (extracted verbatim in U-CHK-V; the look-ahead length IS under contract: prefix(n) requires n >= DETECT_LEN, and DETECT_LEN >= 4)']),
    'C08': dict(
        explanation='Verus U-TML-V on the verbatim src/toml.rs, for ANY history of calls: ensure_one_use / output_value / transcode_from / transcode_value / flush against the view (used, write_all log, other writes): a used output writes nothing and fails; an unused one sets the mark and hands the writer at most one buffer, exactly the text to_string_pretty returned for the root table (exactly one on Ok), never through `write`; non-table roots fail with NonTableRoot and no write; THEOREM lemma_at_most_one_document: along any sequence of such calls from new(w) the writer has received nothing or exactly one complete document. toml::input_matches: 2 MiB cutoff, non-UTF-8 => Ok(false), reader error => Err. Kani, real code against the real std within bounds: TOML output state machine, view = (used, writer calls): ensure_one_use; second use refused from any history before the deserializer is touched and with zero writer calls; '
                    'non-table roots (every variant, any payload) refused with zero writes; the use mark is set before deserialization; table root => exactly one write_all of exactly the '
                    'serializer\'s document, zero writes when the serializer refuses, writer failure surfaces.',
        assumptions=['toml::Value::{deserialize, try_from} reject null/unit and out-of-range integers', 'toml::to_string_pretty emits one valid document that reads back as the value'],
        not_covered=['validity of the emitted document (toml crate)', 'toml::Value::try_from on composite values (transcode_value path)']),
    'C09': dict(
        explanation='Rewindable handle: representation invariant captured == stream[..delivered] preserved by every CaptureReader operation from any valid state against a source that '
                    'short-reads / fails / EOFs at will (unbounded history); borrow_mut always rewinds; detect_format returns the first Ok(true) in order MessagePack, JSON, YAML, TOML, '
                    'None iff all Ok(false), Err iff a trial failed first (complete over all outcomes), each trial sees the stream from byte 0; error mapping of the MessagePack and JSON '
                    'trials: Err only if the source itself failed (repaired defect F3); MessagePack first-byte gate over all 256 bytes. Verus (U-CAP-V) proves the CaptureReader / Handle::borrow_mut / Ref::prefix contracts on the verbatim code for EVERY stream length and buffer size, plus the history theorem '
                    '(any sequence of reads after a rewind yields capture[0..pos], i.e. the stream from byte 0).',
        assumptions=['what each trial parser accepts (assumed)', 'assumed std specs of Cursor / Read / Write / Take in U-CAP-V (coverage.trusted_base)', 'std::io::default_read_to_end stubbed by its documented contract in capture_* harnesses',
                     'rmp_serde / serde_json error categories as stated in the stubs'],
        not_covered=['same-format detection from slice and reader for JSON/YAML/TOML (two parser entry points each)', 'what libyaml / the toml parser accept behind yaml::input_matches / toml::input_matches (their result mapping IS under contract: U-CHK-V, U-TML-V)',
                     'reading through the chain built by Input::from(handle) and Ref::prefix through Box<dyn Read> (out of CBMC\'s reach; the decision of Input::from, capture_up_to_size and FusedReader are under contract)']),
    'C10': dict(
        explanation='Gate/order skeleton only: MessagePack trial runs iff byte 0 is a map/array marker (all 256 bytes), so JSON, YAML (---) and ASCII-first TOML output never enter it, and every '
                    'map/array header does; fixed trial order. YAML verdict (Verus U-CHK-V, verbatim yaml::input_matches against the PROVED contract of Chunker::next): Ok(true) iff the chunker\'s first answer is a document whose first content event opens a sequence or mapping; '
                    'a scalar / empty / invalid first document and an empty stream give Ok(false); the function never answers from anything but that one chunk. Thinnest claim of the set.',
        assumptions=['what each writer emits first', 'JSON/YAML trials reject the other formats\' output'],
        not_covered=['everything about serde_json / serde_yaml / toml accepting or rejecting text', 'the TOML exceptions in the statement', 'libyaml itself behind yaml::input_matches (assumed event contract)']),
    'C11': dict(
        explanation='Error attribution of the streaming transcoder against adversarial mocks with ghost own/synthetic tags and a first-failure record: deserializer failed first => Error::De(own error); '
                    'serializer failed first at any position (scalar, serialize_seq/map, before / inside / after an element, key, value, end) => Error::Ser(that own error); a synthetic '
                    '"translation failed" error is never the reported cause (repaired defect F1). Per-function contracts (serialize_with_seed, capture_*) from arbitrary states carry it to any depth. The induction over nesting depth is machine-checked: tx_depth_induction_step proves that a collection whose children are ABSTRACT subtrees '
                    '(any behaviour the subtree contract allows) satisfies the subtree contract, through the real visit_seq / visit_map / seeds / Forwarder; tx_depth_induction_base proves it for scalar leaves; tx_transcode_maps_v_contract_to_error maps it to Error::De / Error::Ser.',
        assumptions=['parser error texts carry positions; Display of Error::Ser is "{de_err}: {ser_err}" (Display impls not under contract)'],
        not_covered=['message texts', 'TOML target errors produced inside toml::Value::deserialize', 'collections with more than 2 elements / 1 entry per level (loop iterations beyond the unwinding bound; depth is unbounded)']),
    'C12': dict(
        explanation='Fault propagation through xt-owned code: reader faults (CaptureReader, capture_*, decoders, ChunkReader, libyaml read callback) surface as Err with the invariant intact and no '
                    'byte lost or invented; detection does not swallow faults (MessagePack/JSON mapping, detect_format); writer faults travel as serializer errors (C11) and through '
                    'TOML write_all; Translator::flush returns the writer\'s result; what the serializer accepted is a prefix of what the deserializer produced. Verus: on Err the capture of CaptureReader is intact and source_eof unchanged (every size); '
                    'Utf8Encoder::read returns the source\'s own error (never Ok, never invented); ChunkReader::read keeps the capture on Err; Chunker::next wraps parser errors as InvalidData and loses no completed document.',
        assumptions=['serializer crates write a prefix of the fault-free output and handle short writes (inside the crates / write_all)'],
        not_covered=['bytes accepted by a failing writer are a prefix of the fault-free output (serializer crates)', 'libyaml\'s own behaviour after a failed read (stubbed in next_event_resurfaces_stashed_reader_error)',
                     'complete documents delivered before a reader fault (needs the parsers)']),
    'C14': dict(
        explanation='Extension table: extension_format == table(ascii_lowercase(ext)) for every extension byte string of length 0..=7 that Path::extension may return; Stdin => None; '
                    'format names table of try_parse_format (Kani, U-EXT, strings <= 3 B; Verus U-MAIN-V, every string). Precedence and stdin-once: Verus (U-MAIN-V) proves on the verbatim main() that the i-th translate call receives '
                    'from == (-f if given, else extension_format(path_i), else None = detection), resolved afresh for every input, one call per path in iterator order, and that at most one '
                    'of the translated inputs is standard input (a second `-` is refused before anything is read). Cli::parse_args (verbatim, same unit): the -f value reaches Cli.from exactly when it is a name of the table, for every command line. '
                    '`impl From<PathBuf> for InputPath` (verbatim, same unit): an argument is standard input exactly when it is equal (std path equality) to `-`; every other argument is that file.',
        assumptions=['std::path::Path::extension returns the last extension (stubbed by its std contract)',
                     'stand-ins of U-MAIN-V: InputPath::open (Stdin path <=> Input::Stdin), the InputPaths iterator (lawful), xt::Translator (ghost call log), lexopt token stream, std::path equality / ends_with / starts_with (uninterpreted), stdio, process::exit'],
        not_covered=['mmap / FIFO / stdin agreement with the library (InputPath::open, File / Mmap readers)', 'lexopt\'s own splitting rules', 'Iterator for InputPaths (two-line body; assumed lawful)']),
    'C13': dict(
        explanation='Decided by Verus contracts on the verbatim Cli::parse_args and main() (U-MAIN-V): (1) parse_args returns Err EXACTLY for the command lines that the token-stream model calls invalid '
                    '(-f / -t repeated, without a value or with a name outside the table; an unknown option; a token lexopt rejects) and, for a valid one, a Cli holding the -f value, the -t value (JSON when absent) and one path per '
                    'non-option token, in order -- for every command line of any length; main() turns Err into the usage path that ends in process::exit; (2) the translator is never created when stdout is a terminal and the target is MessagePack; '
                    '(3) main() returns normally (status 0) only after every path was translated with result Ok and flushed; every failure leaves through process::exit; (4) the only statuses passed to process::exit are 0 (help / version), 1 and 2; '
                    '(5) each status is tied to its cause: the assumed contract of process::exit demands, at EVERY call site of the verified text (main(), the expanded xt_bail! / xt_bail_path! macros, parse_args), that code == 2 exactly when the token-stream model calls this process\' command line invalid, '
                    'that code == 0 only for a help / version request, and code == 1 only for a valid command line -- so a usage error can only end in 2, a help request only in 0, and a failure while translating only in 1 (main()\'s loop carries the invariant "the command line is valid"); '
                    '(6) silence on stdout for usage errors: the assumed contracts of std::io::stdout() and of print_long_help demand a command line that is not invalid (respectively a help request), so on an invalid command line the verified text never obtains the stdout handle.',
        assumptions=['lexopt splits the command line into the token stream the model describes (stand-in: next() / value() pop one token; attached values count as two tokens)',
                     'process::exit(code) terminates with that status', 'stand-ins of U-MAIN-V (see C14)'],
        not_covered=['the exit(1) fallback of pipecheck::exit_for_broken_pipe on non-Unix systems (outside this unit)',
                     'message texts on stderr, the help texts, println!-style writes that bypass io::stdout() (none in the verified text; Verus would not accept them unannotated)', 'pseudo-terminal detection itself (std)', 'lexopt\'s own splitting rules (--opt=value, combined short options, `--`)']),
    'C15': dict(
        explanation='Verus (U-MAIN-V) proves on the verbatim main() the invariant "nothing is pending in the translator at a loop head": every finished input has been flushed with result Ok before the next input '
                    'is opened, so an error exit (process::exit runs no destructors) happens only while the CURRENT input is in progress and cannot lose output of a finished one; at normal return nothing is unflushed. '
                    'Kani: Translator::flush returns the result of the writer\'s flush for all four targets (U-LIB); pipecheck::Writer::flush forwards to the inner flush exactly once (U-PIPE).',
        assumptions=['BufWriter::flush / StdoutLock write everything that was buffered (std)', 'the serializers hand complete documents to the writer before translate_* returns (serializer crates; framing harnesses cover JSON / YAML)',
                     'stand-ins of U-MAIN-V (see C14)'],
        not_covered=['the bytes themselves (only that flush is called, and its result honoured, after every input)', 'partial output of the failing input']),
    'C16': dict(
        explanation='Contract on the stdout wrapper pipecheck::Writer: every Write method forwards to the same inner method once; '
                    'a BrokenPipe result diverts to exit_for_broken_pipe and never returns; every other result is returned unchanged. Verus U-MAIN-V (verbatim main()): every finished input is flushed through that wrapper, and the flush result is honoured, before the next input is opened and before a normal return -- no output is left to a destructor whose write error would be discarded.',
        assumptions=['raise(SIGPIPE) with SIG_DFL terminates the process silently (libc/kernel; not modelled)',
                     'main() places the wrapper outside the BufWriter (type-checked only: the wrapper types are stand-ins in U-MAIN-V)'],
        not_covered=['signal delivery', 'exit_for_broken_pipe itself: that signal(SIGPIPE, SIG_DFL) precedes raise(SIGPIPE) (two FFI calls without a data dependency; Kani 0.68 cannot stub foreign functions, Verus has no state to attach the order to; seeded change C16-h is not detected)', 'the position of the pipecheck wrapper relative to the BufWriter in main() (main() itself is under contract in U-MAIN-V: flush honoured after every input, every failure leaves through process::exit)']),
    'C17': dict(
        explanation='Unsafe code xt wrote that can be isolated: Parser::read_handler with a reader that returns any Ok(n) (even n > buffer) or Err: no write beyond buffer_size (canary bytes), '
                    'success => size_read <= buffer_size and destination == what the reader produced, failure => error stashed and destination untouched, null arguments refused; '
                    'ChunkReader::read with an over-reporting reader: only the clean slice-index panic; both from_u32_unchecked sites receive Unicode scalar values on every path; '
                    'Drop for Event releases every event type exactly once (yaml_event_delete), Drop for Parser deletes the parser once and frees the read state once.',
        assumptions=['libyaml passes a valid buffer of buffer_size bytes and a valid size_read pointer'],
        not_covered=['Parser::new aliasing argument', 'Event::parse_next initialisation (MaybeUninit) on the libyaml side', 'early drops', 'all of unsafe-libyaml (only that xt calls yaml_event_delete / yaml_parser_delete exactly once per object is under contract)']),
    'C18': dict(
        explanation='Verus proves, for all byte strings and all depth limits, that the real next_value_size/total_seq_size/total_map_size '
                    '(and rmp::Marker::from_u8) compute exactly mp_value: Ok(n) iff the first value is complete, well-formed and nested at most d deep. '
                    'Lemmas: monotone in d; every shape of k collections (arrays, maps via value, maps via key) around a scalar is accepted iff k+1 <= d; '
                    'with DEPTH_LIMIT extracted from the source: 1023 accepted, 1024 rejected; rmp_value (assumed spec of rmp_serde) implies mp_value. '
                    'Kani: the length readers assumed by Verus are proved on their real bodies; every slice-path deserializer gets set_max_depth(DEPTH_LIMIT). '
                    'Verus U-MP-X: every deserializer that msgpack::transcode offers to the output -- slice path and reader path, any number of documents -- carries set_max_depth(DEPTH_LIMIT) (precondition-contract on Output::transcode_from); the two detection trials match_input_buffer / match_input_reader (verbatim) run their parse only on a deserializer with set_max_depth(DEPTH_LIMIT) (precondition-contract on the IgnoredAny stand-in).',
        assumptions=['rmp_value is a hand transcription of rmp-serde 1.1.2 decode.rs (depth_count! on arrays, maps and ext); not machine-checked against the crate',
                     'JSON/YAML/TOML nesting limits are library defaults (not under contract)', 'process stack survival is not modelled'],
        not_covered=['JSON, YAML and TOML depth limits', 'stack safety of the real binary', 'reader-mode verdict is rmp_serde\'s own (assumed spec)']),
}


def full_name(h):
    mp = KANI_MODULES[h['module']]['modpath']
    return (mp + '::' if mp else '') + 'verif_kani::' + h['name']


def kani_harnesses_for(pid, tier):
    out = []
    for h in HARNESSES:
        if h['tier'] == 'never':
            continue
        if pid in h['props'] and (tier == 'thorough' or h['tier'] == 'quick'):
            out.append(h)
    return out


def verus_units_for(pid, tier):
    return [u for u, d in VERUS_UNITS.items() if pid in d['props']]


def attr_inserts_for(modules):
    out = []
    for m in modules_closure(list(modules)):
        out += ATTR_INSERTS.get(m, [])
    return out

NOT_APPLICABLE = {
    # (C13 and C15 were not-applicable until main() was brought under a Verus contract, DESIGN 12.12)
}


def modules_closure(names):
    """Harness modules to inject for the given module names (a harness file may use another one's helpers)."""
    out, todo = {}, list(names)
    while todo:
        n = todo.pop()
        if n in out:
            continue
        out[n] = KANI_MODULES[n]
        todo += KANI_MODULES[n].get('requires', [])
    return out
