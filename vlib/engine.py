"""vcheck engine: decide one property by running its Verus and Kani units on /repo's working tree."""
import importlib
import json
import os
import re
import shutil
import sys
import tempfile
import time

from . import kani_unit as ku
from . import verus_unit as vu
from . import registry as reg
from .rustscan import ScanError

VERIF = ku.VERIF
REPO = os.environ.get('VERIF_REPO', '/repo')
SCRATCH_ROOT = os.environ.get('VERIF_SCRATCH', '/var/tmp')
EVIDENCE_DIR = os.environ.get('VERIF_EVIDENCE_DIR') or os.path.join(VERIF, 'evidence')  # override only for bin/selftest runs on scratch copies
REPLAY_DIR = os.environ.get('VERIF_REPLAY_DIR') or os.path.join(VERIF, 'replays')
KNOWN_FINDINGS = os.path.join(VERIF, 'known-findings.txt')


def load_known_findings():
    """Lines `finding: property=<id> obligation=<name> <what fails>` suppress exactly that obligation;
    `fixed:` lines suppress nothing."""
    out = []
    if os.path.exists(KNOWN_FINDINGS):
        for line in open(KNOWN_FINDINGS):
            line = line.strip()
            m = re.match(r'finding:\s+property=(\S+)\s+obligation=(\S+)\s+(.*)', line)
            if m:
                out.append(dict(property=m.group(1), obligation=m.group(2), what=m.group(3)))
    return out


def safe(name):
    return re.sub(r'[^A-Za-z0-9_.-]+', '_', name)[:150]


# --------------------------------------------------------------------------------------------
# Verus side
# --------------------------------------------------------------------------------------------

def run_verus_units(pid, tier, scratch, report):
    for uname in reg.verus_units_for(pid, tier):
        udef = reg.VERUS_UNITS[uname]
        spec = importlib.import_module(udef['module'])
        t0 = time.time()
        try:
            unit = vu.VerusUnit(uname, spec, REPO)
            text = unit.build()
            path = os.path.join(scratch, safe(uname) + '.rs')
            open(path, 'w').write(text)
            vac_unit = vu.VerusUnit(uname, spec, REPO)
            vac_text = vac_unit.build(vacuity=True)
            vac_path = os.path.join(scratch, safe(uname) + '_vacuity.rs')
            open(vac_path, 'w').write(vac_text)
        except ScanError as e:
            report['undecided'].append(dict(obligation='%s/%s' % (pid, uname), backend='verus', reason='extraction: %s' % e))
            continue
        res = vu.run_verus(path, timeout=udef.get('timeout', 600))
        verdict, why = vu.classify(res)
        ftimes = vu.function_times(res['json']) if res.get('json') else {}
        vr = (res.get('json') or {}).get('verification-results', {})
        urec = dict(unit=uname, backend='verus', shape='unbounded', verdict=verdict, wall_s=round(res['wall_s'], 2),
                    verified=vr.get('verified', 0), errors=vr.get('errors', 0),
                    functions_extracted=[dict(name=i['name'], kind=i['kind'], mode=i['mode'],
                                              source='%s:%d' % (i['source'], i['src_line'])) for i in unit.items],
                    assumed_external_body=list(unit.assumed),
                    smt_ms=round(sum((v.get('micros') or 0) for v in ftimes.values()) / 1000.0, 1),
                    checker_cmd='verus %s.rs --output-json --time --multiple-errors 10' % safe(uname))
        report['units'].append(urec)
        report['trusted'] += scan_trusted(text, 'verus:' + uname)
        if verdict == 'undecided':
            report['undecided'].append(dict(obligation='%s/%s' % (pid, uname), backend='verus', reason=why))
            continue
        min_verified = udef.get('min_verified', 1)
        if verdict == 'ok':
            if vr.get('verified', 0) < min_verified:
                report['undecided'].append(dict(obligation='%s/%s' % (pid, uname), backend='verus',
                                                reason='only %d obligations verified, expected >= %d (vacuity guard)' % (vr.get('verified', 0), min_verified)))
                continue
            report['obligations'] += vr.get('verified', 0)
            report['discharged'] += vr.get('verified', 0)
            for fn, ft in sorted(ftimes.items()):
                if ft.get('mode') in ('exec', 'proof'):
                    report['samples'].append('%s/%s/%s [%s] verified by verus/z3 in %.3f s' % (pid, uname, fn, ft.get('mode'), (ft.get('micros') or 0) / 1e6))
            # vacuity: every probe must FAIL
            vres = vu.run_verus(vac_path, timeout=udef.get('timeout', 600))
            probes = [(m.group(1), vu.rs.line_of(vac_text, m.start())) for m in re.finditer(r'// @vacuity-probe (\w+)', vac_text)]
            errs = vu.parse_errors(vres['stderr'])
            failed_lines = set(e['line'] for e in errs if 'assertion failed' in e['msg'])
            urec['vacuity_probes'] = len(probes)
            not_failed = [n for (n, ln) in probes if ln not in failed_lines]
            urec['vacuity_probes_failed_as_required'] = len(probes) - len(not_failed)
            if vres['timeout'] or vres.get('json') is None:
                report['undecided'].append(dict(obligation='%s/%s#vacuity' % (pid, uname), backend='verus', reason='vacuity run did not complete'))
            elif not_failed:
                report['undecided'].append(dict(obligation='%s/%s#vacuity' % (pid, uname), backend='verus',
                                                reason='assert(false) verified inside %s: precondition unsatisfiable' % ','.join(not_failed)))
            continue
        # verdict == 'fail': name the failed obligations
        errs = vu.parse_errors(res['stderr'])
        lines = text.split('\n')
        fails = []
        for e in errs:
            if 'rlimit' in e['msg'].lower() or 'aborting due to' in e['msg']:
                continue
            owner = owner_of_line(text, unit, e['line'])
            clause = lines[e['line'] - 1].strip() if 0 < e['line'] <= len(lines) else ''
            fails.append(dict(obligation='%s/%s/%s#%s@%s' % (pid, uname, owner, safe(e['msg']), safe(clause)[:80]),
                              function=owner, message=e['msg'], clause=clause, gen_line=e['line']))
        rl = [e for e in errs if 'rlimit' in e['msg'].lower()]
        if not fails:
            report['undecided'].append(dict(obligation='%s/%s' % (pid, uname), backend='verus',
                                            reason='verification failed without a nameable obligation (%s)' % ('rlimit' if rl else 'see output')))
            continue
        ok_n = vr.get('verified', 0)
        report['obligations'] += ok_n + vr.get('errors', 0)
        report['discharged'] += ok_n
        report['failures'].append(dict(unit=uname, backend='verus', fails=fails, verifier_output=res['stderr'][-6000:],
                                       paired_kani=udef.get('paired_kani', []), gen_file=text))


def owner_of_line(text, unit, line):
    best = None
    for it in unit.items:
        if it.get('gen_first_line', 0) <= line <= it.get('gen_last_line', -1):
            best = it['name']
    if best:
        return best
    # a lemma / spec fn in the hand-written part: nearest preceding `fn name`
    lines = text.split('\n')
    for k in range(min(line, len(lines)) - 1, -1, -1):
        m = re.search(r'\bfn\s+(\w+)', lines[k])
        if m:
            return m.group(1)
    return 'unknown'


TRUST_PATTERNS = [r'\bassume\s*\(', r'\badmit\s*\(', r'external_body', r'assume_specification', r'kani::stub\b',
                  r'kani::assume\s*\(', r'stub_verified', r'external_trait_specification']


def scan_trusted(text, origin):
    """Mechanical scan of generated / harness text for every assumption-introducing construct."""
    out = []
    for i, line in enumerate(text.split('\n'), 1):
        s = line.strip()
        if s.startswith('//'):
            continue
        for pat in TRUST_PATTERNS:
            if re.search(pat, line):
                out.append('%s:%d: %s' % (origin, i, s[:160]))
                break
    return out


# --------------------------------------------------------------------------------------------
# Kani side
# --------------------------------------------------------------------------------------------

def run_kani_units(pid, tier, scratch, report, only=None):
    hs = reg.kani_harnesses_for(pid, tier)
    if only:
        hs = [h for h in reg.HARNESSES if h['name'] in only]
    if not hs:
        return None
    xt_dir = ku.make_scratch(REPO, scratch)
    mods = {}
    mods = reg.modules_closure([h['module'] for h in hs])
    try:
        hdir = ku.inject(xt_dir, scratch, list(mods.values()), reg.attr_inserts_for(list(mods.keys())))
    except ScanError as e:
        report['undecided'].append(dict(obligation='%s/kani-inject' % pid, backend='kani', reason='lost anchor: %s' % e))
        return None
    for mname, m in mods.items():
        report['trusted'] += scan_trusted(open(os.path.join(hdir, m['file'])).read(), 'kani:' + m['file'])
    # harnesses that need extra CBMC options (e.g. the memory-leak check) run in an invocation of their own
    groups = {}
    for h in hs:
        groups.setdefault(tuple(h.get('kani_args', ())), []).append(h)
    by_id, stats = {}, {}
    report['kani_wall_s'] = 0
    for gi, (gargs, ghs) in enumerate(sorted(groups.items())):
        names = [reg.full_name(h) for h in ghs]
        per_timeout = max(h.get('timeout', 600) for h in ghs)
        jobs = min(int(os.environ.get('VERIF_JOBS', '16')), len(ghs))
        res = ku.run_kani(xt_dir, names, jobs, per_timeout, outer_timeout=per_timeout * 2 + 900, extra=gargs,
                          log_path=os.path.join(scratch, 'kani%s.log' % ('' if gi == 0 else gi)))
        report['kani_cmd'] = (report.get('kani_cmd', '') + ' ; ' if gi else '') + res['cmd'].replace(scratch, '<scratch>')
        report['kani_wall_s'] = round(report['kani_wall_s'] + res['wall_s'], 1)
        j = res['json']
        if j is None:
            tail = res['stdout'][-3000:]
            reason = 'cargo kani produced no result file (build error in harness or source; timeout=%s)' % res['timeout']
            report['undecided'].append(dict(obligation='%s/kani-build' % pid, backend='kani', reason=reason, output=tail))
            return None
        by_id.update({r['harness_id']: r for r in j.get('verification_results', {}).get('results', [])})
        stats.update({c['harness_id']: (c.get('cbmc_stats') or {}) for c in (j.get('cbmc') or [])})
    for h in hs:
        fq = reg.full_name(h)
        r = by_id.get(fq)
        oname = '%s/%s/%s' % (pid, h['unit'], h['name'])
        if r is None:
            report['undecided'].append(dict(obligation=oname, backend='kani', reason='harness not found in results (renamed item / lost anchor?)'))
            continue
        s = ku.summarize_harness(r, hdir)
        st = stats.get(fq) or {}
        hrec = dict(unit=h['unit'], harness=h['name'], backend='kani/cbmc', shape=h['shape'], bounds=h.get('bounds', ''),
                    functions=h.get('fns', []), verdict=s['verdict'], checks=s['n_checks'], passed=s['n_passed'],
                    unreachable=s['n_unreachable'], covers=s['n_covers'], covers_satisfied=s['n_covers_sat'],
                    time_s=round(s['duration_s'], 1), solver_s=round(st.get('runtime_solver_s', 0) or 0, 2),
                    symex_s=round(st.get('runtime_symex_s', 0) or 0, 2), assumes=h.get('assumes', []))
        report['harnesses'].append(hrec)
        if s['verdict'] == 'ok':
            if s['n_own_passed'] < 1 and not h.get('allow_unreachable_asserts'):
                report['undecided'].append(dict(obligation=oname, backend='kani', reason='no harness assertion was reachable (vacuity guard)'))
                continue
            hrec['own_assertions_reached'] = s['n_own_passed']
            hrec['own_assertions_unreachable'] = len(s['unreachable_own'])
            if h.get('min_covers', 0) > s['n_covers']:
                report['undecided'].append(dict(obligation=oname, backend='kani', reason='expected >= %d cover points, found %d' % (h['min_covers'], s['n_covers'])))
                continue
            n = s['n_passed']
            if h['shape'] in ('complete', 'contract'):
                report['obligations'] += n
                report['discharged'] += n
            else:
                report['bounded_checks'] += n
                report['bounded'].append(dict(harness=h['name'], shape=h['shape'], bounds=h.get('bounds', ''), checks=n))
            report['samples'].append('%s [%s%s] %d checks + %d covers discharged by kani/cbmc(cadical) in %.1f s' % (
                oname, h['shape'], (': ' + h['bounds']) if h.get('bounds') else '', n, s['n_covers'], s['duration_s']))
        elif s['verdict'] == 'vacuous':
            desc = [c['description'] for c in s['unsat_covers']][:5]
            report['undecided'].append(dict(obligation=oname, backend='kani', reason='cover point(s) not satisfiable (vacuity guard): %s' % desc))
        elif s['verdict'] == 'undecided':
            why = 'status=%s; tool-limit failures=%s; undetermined=%d' % (s['raw_status'], [c['description'] for c in s['tool_failed']][:3], s['undetermined'])
            report['undecided'].append(dict(obligation=oname, backend='kani', reason=why))
        else:
            fails = [dict(obligation='%s#%s@%s:%s' % (oname, safe(c['description'])[:80], os.path.basename(c.get('location', {}).get('file', '?')), c.get('location', {}).get('line', '?')),
                          description=c['description'], category=c['category'], function=c.get('function'),
                          location=c.get('location')) for c in s['failed']]
            expected = h.get('expected_failures')
            if expected:
                # harnesses that drive the code with a contract-violating environment: only panic-class
                # failures at the named sites are acceptable, anything else is a violation
                unexpected = [f for f in fails if not any(re.search(e, '%s %s %s' % (f['category'], f['description'], (f['location'] or {}).get('file', ''))) for e in expected)]
                if not unexpected:
                    report['bounded_checks'] += s['n_passed']
                    report['samples'].append('%s [%s] only the expected clean-panic checks fail: %s' % (oname, h['shape'], [f['description'] for f in fails][:3]))
                    hrec['verdict'] = 'ok (expected clean panic only)'
                    continue
                fails = unexpected
            report['obligations'] += s['n_checks']
            report['discharged'] += s['n_passed']
            report['failures'].append(dict(unit=h['unit'], backend='kani', harness=h['name'], fq=fq, module=h['module'], fails=fails))
    return dict(xt_dir=xt_dir, hdir=hdir)


# --------------------------------------------------------------------------------------------
# failures -> replay files -> VIOLATION lines
# --------------------------------------------------------------------------------------------

def handle_failures(pid, tier, scratch, report, kctx):
    known = load_known_findings()
    lines = []
    violations = 0
    os.makedirs(REPLAY_DIR, exist_ok=True)
    for f in report['failures']:
        obl = f['fails'][0]['obligation']
        replay = dict(property=pid, tier=tier, unit=f['unit'], backend=f['backend'], failed_obligations=f['fails'],
                      repo_head=git_head(), created=time.strftime('%Y-%m-%dT%H:%M:%SZ', time.gmtime()))
        suffix = ''
        if f['backend'] == 'kani':
            pb = ku.playback(kctx['xt_dir'], kctx['hdir'], f['fq'], reg.KANI_MODULES[f['module']]['file'],
                             harness_modpath=reg.KANI_MODULES[f['module']]['modpath'], harness_src_rel=reg.KANI_MODULES[f['module']]['src'])
            replay.update(harness=f['fq'], module=f['module'], playback_test=pb.get('test_src'), playback_test_name=pb.get('test_name'),
                          playback_reproduced=pb['reproduced'], playback_panic=pb.get('panic'), playback_output=pb.get('output'),
                          stubs_applied_natively=pb.get('stubs_applied_natively', []), stubs_not_applied=pb.get('stubs_not_applied', []))
            if not pb['reproduced']:
                # CBMC's trace is bit-precise for the harness as written, so the violation stands; the
                # concrete values are in playback_test, but they did not reproduce natively (stubs are
                # not applied by `cargo kani playback`, or the failing check is not a native panic)
                suffix = ' no-failing-input-found'
        else:
            replay.update(verifier_output=f['verifier_output'])
            # Verus gives no counterexample: bounded NATIVE search on the same real function for a concrete failing input
            udef = reg.VERUS_UNITS.get(f['unit'], {})
            if udef.get('native_search'):
                ns = ku.native_search(REPO, scratch, udef['native_search']['src'], udef['native_search']['file'])
                replay['native_search'] = ns
                if ns.get('found'):
                    replay['failing_input'] = ns['found']
                    replay['playback_reproduced'] = True
                else:
                    replay['playback_reproduced'] = False
                    suffix = ' no-failing-input-found'
            else:
                replay['playback_reproduced'] = False
                suffix = ' no-failing-input-found'
        kf = [k for k in known if k['property'] == pid and any(x['obligation'].startswith(k['obligation']) for x in f['fails'])]
        path = os.path.join(REPLAY_DIR, '%s-%s.json' % (pid, safe(obl)))
        json.dump(replay, open(path, 'w'), indent=1)
        if kf and all(any(x['obligation'].startswith(k['obligation']) for k in kf) for x in f['fails']):
            for k in kf:
                lines.append('KNOWN-FINDING: property=%s %s' % (pid, k['what']))
            continue
        violations += 1
        lines.append('VIOLATION property=%s replay=%s%s' % (pid, path, suffix))
        report['violation_details'].append(dict(obligation=obl, replay=path, failed=[x['obligation'] for x in f['fails']][:10]))
    return violations, lines


def git_head():
    import subprocess
    try:
        return subprocess.run(['git', '-C', REPO, 'rev-parse', 'HEAD'], stdout=subprocess.PIPE, text=True).stdout.strip()
    except Exception:
        return ''


# --------------------------------------------------------------------------------------------
# top level
# --------------------------------------------------------------------------------------------

def check_property(pid, tier, seed):
    t0 = time.time()
    pdef = reg.PROPERTIES[pid]
    report = dict(units=[], harnesses=[], failures=[], undecided=[], samples=[], trusted=[], obligations=0, discharged=0,
                  bounded=[], bounded_checks=0, violation_details=[])
    scratch = tempfile.mkdtemp(prefix='xt-verif-%s-' % pid, dir=SCRATCH_ROOT)
    violations, lines = 0, []
    try:
        run_verus_units(pid, tier, scratch, report)
        kctx = run_kani_units(pid, tier, scratch, report)
        if report['failures']:
            violations, lines = handle_failures(pid, tier, scratch, report, kctx)
    finally:
        if not os.environ.get('VERIF_KEEP_SCRATCH'):
            shutil.rmtree(scratch, ignore_errors=True)
        else:
            print('scratch kept at', scratch, file=sys.stderr)
    wall = time.time() - t0
    fns = []
    for u in report['units']:
        fns += ['%s (%s, verus%s)' % (f['name'], f['source'].replace(REPO + '/', ''), ', assumed external_body' if f['mode'] == 'external_body' else '') for f in u['functions_extracted'] if f['kind'] == 'fn']
    for h in report['harnesses']:
        for f in h['functions']:
            s = '%s (kani: %s)' % (f, h['harness'])
            if s not in fns:
                fns.append(s)
    trusted = sorted(set(report['trusted'])) + list(reg.STANDING_TRUST)
    coverage = dict(
        obligations=report['obligations'], discharged=report['discharged'],
        checker_cmd='; '.join([u['checker_cmd'] for u in report['units']] + ([report.get('kani_cmd')] if report.get('kani_cmd') else [])),
        trusted_base=trusted,
        samples=report['samples'][:40] or ['(no obligation discharged)'],
        exhaustive=False,
        explanation=pdef['explanation'],
        functions_under_contract=fns,
        backends=sorted(set(['verus 0.2026.09.13 / z3'] * bool(report['units']) + ['kani 0.68.0 / cbmc 6.11.0 / cadical'] * bool(report['harnesses']))),
        verus_units=report['units'], kani_harnesses=report['harnesses'],
        bounded_stand_ins=report['bounded'], bounded_checks_not_counted_as_proved=report['bounded_checks'],
        undecided=report['undecided'], violations=report['violation_details'],
        not_covered=pdef.get('not_covered', []),
        solver_time_s=round(sum(h['solver_s'] for h in report['harnesses']) + sum(u['smt_ms'] for u in report['units']) / 1000.0, 2),
        repo_head=git_head(),
    )
    if coverage['obligations'] < 1:
        # nothing complete was discharged (only bounded stand-ins, or undecided): fall back to honest generic counts
        coverage['evaluations'] = max(1, report['bounded_checks'])
        coverage['distinct_nontrivial'] = max(2, len(report['bounded']))
    ev = dict(property_id=pid, tier=tier, seed=seed, level='proof', coverage=coverage,
              assumptions=pdef.get('assumptions', []) + ['see coverage.trusted_base for the mechanical scan of assume/external_body/stub sites'],
              wall_s=round(wall, 1), violations=violations)
    os.makedirs(EVIDENCE_DIR, exist_ok=True)
    json.dump(ev, open(os.path.join(EVIDENCE_DIR, pid + '.json'), 'w'), indent=1)
    for l in lines:
        print(l)
    for u in report['undecided']:
        print('UNDECIDED property=%s obligation=%s backend=%s reason=%s' % (pid, u['obligation'], u['backend'], u['reason']))
        if u.get('output') and os.environ.get('VERIF_VERBOSE'):
            print(u['output'])
    print('SUMMARY property=%s tier=%s obligations=%d discharged=%d bounded_checks=%d harnesses=%d verus_units=%d undecided=%d violations=%d wall=%.0fs' % (
        pid, tier, report['obligations'], report['discharged'], report['bounded_checks'], len(report['harnesses']), len(report['units']),
        len(report['undecided']), violations, wall))
    if violations:
        return 1
    if report['undecided']:
        return 2
    return 0


def replay_file(path):
    r = json.load(open(path))
    pid = r['property']
    if not r.get('playback_test') or not r.get('harness'):
        print('replay file carries no concrete input (obligation: %s)' % r['failed_obligations'][0]['obligation'])
        print(r.get('verifier_output', '')[-3000:])
        if r.get('failing_input'):
            print('recorded failing input:', r['failing_input'])
        print('re-running the check instead')
        return check_property(pid, r.get('tier', 'quick'), 0)
    scratch = tempfile.mkdtemp(prefix='xt-replay-%s-' % pid, dir=SCRATCH_ROOT)
    try:
        xt_dir = ku.make_scratch(REPO, scratch)
        m = reg.KANI_MODULES[r['module']]
        hdir = ku.inject(xt_dir, scratch, list(reg.modules_closure([r['module']]).values()), reg.attr_inserts_for([r['module']]))
        with open(os.path.join(hdir, m['file']), 'a') as f:
            f.write('\n' + r['playback_test'] + '\n')
        try:
            ku.apply_local_stubs(xt_dir, hdir, m['file'], r['harness'].split('::')[-1], m['modpath'], m['src'])
        except Exception as e:
            print('note: stubs not applied natively:', e)
        pb = ku.run_playback_test(xt_dir, r['playback_test_name'], r['playback_test'])
        print(pb['output'][-3000:])
        if pb['reproduced']:
            print('VIOLATION property=%s replay=%s' % (pid, path))
            return 1
        print('replay did not reproduce on the current tree')
        return 0
    finally:
        shutil.rmtree(scratch, ignore_errors=True)


def main(argv):
    import argparse
    ap = argparse.ArgumentParser(prog='vcheck')
    ap.add_argument('property', nargs='?')
    ap.add_argument('--tier', default='quick', choices=['quick', 'thorough'])
    ap.add_argument('--replay')
    ap.add_argument('--list', action='store_true')
    a = ap.parse_args(argv)
    if a.list:
        for pid in sorted(reg.PROPERTIES):
            print(pid, [h['name'] for h in reg.kani_harnesses_for(pid, 'thorough')], reg.verus_units_for(pid, 'thorough'))
        return 0
    if a.replay:
        return replay_file(a.replay)
    if a.property not in reg.PROPERTIES:
        print('unknown or unclaimed property', a.property, file=sys.stderr)
        return 2
    try:
        seed = int(os.environ.get('VERIF_SEED', '0') or 0)
    except ValueError:
        seed = 0
    if os.environ.get('VERIF_TIER') in ('quick', 'thorough'):
        a.tier = os.environ['VERIF_TIER']
    try:
        return check_property(a.property, a.tier, seed)
    except Exception:
        # an internal error of the machinery is never an alarm
        import traceback
        traceback.print_exc()
        print('UNDECIDED property=%s obligation=%s/engine backend=vcheck reason=internal error of the checking machinery (see traceback)' % (a.property, a.property))
        return 2
