"""Back end B: Kani on the real crate in a scratch copy.

The scratch copy is /repo's working tree byte for byte, plus, per source file under contract,
one appended line
    #[cfg(kani)] #[path = "<scratch>/harness/<m>.rs"] mod verif_kani;
(the harness module is a child of the module under contract, so it sees private items), plus
optional contract attributes inserted *above* named functions (add-only, cfg_attr(kani, ..)).
"""
import json
import os
import re
import shutil
import subprocess
import time

from . import rustscan as rs
from .rustscan import ScanError

VERIF = os.path.dirname(os.path.dirname(os.path.abspath(__file__)))
HARNESS_SRC = os.path.join(VERIF, 'contracts', 'kani')

# categories of failing CBMC properties that mean "tool limit", not "property violated"
UNDECIDED_CATEGORIES = {'unwind', 'unsupported_construct', 'missing_definition', 'recursion'}


# compiler-inserted checks that share the 'assertion' category with explicit assert!s
BUILTIN_ASSERT = re.compile(r'^(index out of bounds|attempt to |unreachable|slice index|range (start|end)|arithmetic overflow|division by zero|called `|This is a placeholder)|overflow')


def make_scratch(repo, scratch):
    dst = os.path.join(scratch, 'xt')
    subprocess.run(['rsync', '-a', '--exclude', '/target', '--exclude', '/.git', '--exclude', '/fuzz/target',
                    repo.rstrip('/') + '/', dst + '/'], check=True)
    cfgdir = os.path.join(dst, '.cargo')
    os.makedirs(cfgdir, exist_ok=True)
    with open(os.path.join(cfgdir, 'config.toml'), 'a') as f:
        f.write('\n[net]\noffline = true\n')
    return dst


def inject(xt_dir, scratch, modules, attr_inserts=()):
    """modules: list of dict(src='src/input.rs', file='input.rs').  Copies harness files into
    <scratch>/harness and appends the mod line.  attr_inserts: list of dict(src, fn, text[, within_impl])."""
    hdir = os.path.join(scratch, 'harness')
    os.makedirs(hdir, exist_ok=True)
    for f in os.listdir(HARNESS_SRC):
        if f.endswith('.rs'):
            shutil.copy(os.path.join(HARNESS_SRC, f), os.path.join(hdir, f))
    for ins in attr_inserts:
        p = os.path.join(xt_dir, ins['src'])
        src = open(p).read()
        within = rs.find_impl_span(src, ins['within_impl']) if ins.get('within_impl') else None
        it = rs.find_item(src, 'fn', ins['fn'], within)
        indent = re.match(r'[ \t]*', src[it['start']:]).group(0)
        text = ''.join(indent + l + '\n' for l in ins['text'].strip().split('\n'))
        src = src[:it['start']] + text + src[it['start']:]
        open(p, 'w').write(src)
    for m in modules:
        p = os.path.join(xt_dir, m['src'])
        if not os.path.exists(p):
            raise ScanError('source file %s missing' % m['src'])
        with open(p, 'a') as f:
            f.write('\n#[cfg(kani)] #[allow(dead_code, unused_imports)] #[path = "%s"] pub(crate) mod verif_kani;\n' % os.path.join(hdir, m['file']))
    return hdir


def _limit_memory():
    """Cap each verifier process's address space so a runaway CBMC cannot take the machine down (no swap)."""
    import resource
    gb = int(os.environ.get('VERIF_MEM_GB', '20'))
    resource.setrlimit(resource.RLIMIT_AS, (gb << 30, gb << 30))


def run_kani(xt_dir, harness_names, jobs, harness_timeout, outer_timeout, extra=(), log_path=None):
    """One cargo-kani invocation for all harnesses; returns dict(json, stdout, rc, wall_s, timeout)."""
    out_json = os.path.join(os.path.dirname(xt_dir), 'kani-out.json')
    if os.path.exists(out_json):
        os.remove(out_json)
    cmd = ['cargo', 'kani', '-Z', 'function-contracts', '-Z', 'stubbing', '-Z', 'unstable-options',
           '--harness-timeout', '%ds' % harness_timeout, '-j', str(jobs), '--output-format', 'terse',
           '--export-json', out_json, '--exact']
    for h in harness_names:
        cmd += ['--harness', h]
    cmd += list(extra)
    env = dict(os.environ, CARGO_NET_OFFLINE='true')
    t0 = time.time()
    timed_out = False
    try:
        p = subprocess.run(cmd, cwd=xt_dir, env=env, stdout=subprocess.PIPE, stderr=subprocess.STDOUT, text=True,
                           timeout=outer_timeout, preexec_fn=_limit_memory)
        out, rc = p.stdout, p.returncode
    except subprocess.TimeoutExpired as e:
        out = (e.stdout or b'').decode('utf-8', 'replace') if isinstance(e.stdout, bytes) else (e.stdout or '')
        rc, timed_out = None, True
        subprocess.run(['pkill', '-f', xt_dir], check=False)
    j = None
    if os.path.exists(out_json):
        try:
            j = json.load(open(out_json))
        except Exception:
            j = None
    if log_path:
        open(log_path, 'w').write(out)
    return dict(json=j, stdout=out, rc=rc, wall_s=time.time() - t0, timeout=timed_out, cmd=' '.join(cmd))


def summarize_harness(res, harness_file_dir):
    """res: one element of verification_results.results -> dict with classification."""
    checks = res.get('checks', [])
    failed = [c for c in checks if c['status'].lower() in ('failure', 'failed')]
    undet = [c for c in checks if c['status'].lower() in ('undetermined',)]
    covers = [c for c in checks if c['category'] == 'cover']
    unsat_covers = [c for c in covers if c['status'].lower() not in ('satisfied',)]
    unreachable_own = [c for c in checks if c['status'].lower() == 'unreachable'
                       and c['category'] == 'assertion' and not BUILTIN_ASSERT.search(c.get('description', ''))
                       and c.get('location', {}).get('file', '').startswith(harness_file_dir)]
    passed = [c for c in checks if c['status'].lower() == 'success']
    own_passed = [c for c in passed if c['category'] == 'assertion' and not BUILTIN_ASSERT.search(c.get('description', ''))
                  and c.get('location', {}).get('file', '').startswith(harness_file_dir)]
    real_fail = [c for c in failed if c['category'] not in UNDECIDED_CATEGORIES]
    tool_fail = [c for c in failed if c['category'] in UNDECIDED_CATEGORIES]
    status = res.get('status', '').lower()
    if real_fail:
        verdict = 'fail'
    elif tool_fail or undet or status not in ('success',):
        verdict = 'undecided'
    elif unsat_covers:
        verdict = 'vacuous'
    else:
        verdict = 'ok'
    return dict(verdict=verdict, n_checks=len(checks) - len(covers), n_passed=len(passed),
                n_unreachable=len([c for c in checks if c['status'].lower() == 'unreachable']),
                n_covers=len(covers), n_covers_sat=len(covers) - len(unsat_covers),
                failed=real_fail, tool_failed=tool_fail, undetermined=len(undet),
                unsat_covers=unsat_covers, unreachable_own=unreachable_own, n_own_passed=len(own_passed),
                duration_s=res.get('duration_ms', 0) / 1000.0, raw_status=res.get('status'))



def harness_stubs(harness_src, harness_fn):
    """(target, stub_fn) pairs of the #[kani::stub(..)] attributes attached to `harness_fn`."""
    lines = harness_src.split('\n')
    out = []
    for i, l in enumerate(lines):
        if re.match(r'\s*fn\s+%s\s*\(' % re.escape(harness_fn), l):
            k = i - 1
            while k >= 0 and lines[k].strip().startswith('#['):
                m = re.match(r'\s*#\[kani::stub\(\s*(.+?)\s*,\s*([\w:]+)\s*\)\]', lines[k])
                if m:
                    out.append((m.group(1).replace(' ', ''), m.group(2)))
                k -= 1
            break
    return out


def apply_local_stubs(xt_dir, hdir, harness_file, harness_fn, harness_modpath, harness_src_rel):
    """`cargo kani playback` ignores #[kani::stub]; for stubs whose target is a free function of the xt crate
    we apply them by rewriting the SCRATCH copy: the real function is renamed to <name>__verif_orig and a
    forwarder with the same signature calls the stub.  Returns (applied, not_applied)."""
    hsrc = open(os.path.join(hdir, harness_file)).read()
    stubs = harness_stubs(hsrc, harness_fn)
    applied, skipped = [], []
    if not stubs:
        return applied, skipped
    # stubs and ghost statics must be reachable from the forwarders
    for f in os.listdir(hdir):
        if f.endswith('.rs'):
            t = open(os.path.join(hdir, f)).read()
            t = re.sub(r'(?m)^fn ', 'pub(crate) fn ', t)
            t = re.sub(r'(?m)^static mut ', 'pub(crate) static mut ', t)
            open(os.path.join(hdir, f), 'w').write(t)
    for root, _, files in os.walk(os.path.join(xt_dir, 'src')):
        for f in files:
            if f.endswith('.rs'):
                pth = os.path.join(root, f)
                t = open(pth).read()
                t2 = t
    stub_path = 'crate::' + (harness_modpath + '::' if harness_modpath else '') + 'verif_kani::'
    for target, stub_fn in stubs:
        parts = target.split('::')
        if target.startswith('crate::'):
            mod_parts, name = parts[1:-1], parts[-1]
            cands = [os.path.join('src', *mod_parts) + '.rs', os.path.join('src', *mod_parts, 'mod.rs')]
        elif len(parts) == 1:
            name, cands = parts[0], [harness_src_rel]
        else:
            skipped.append(target)
            continue
        done = False
        for rel in cands:
            pth = os.path.join(xt_dir, rel)
            if not os.path.exists(pth):
                continue
            src = open(pth).read()
            try:
                it = rs.find_item(src, 'fn', name)
            except ScanError:
                continue
            text = it['text']
            msk = rs.mask(text)
            m = re.search(r'\bfn\s+%s\b' % re.escape(name), msk)
            popen = msk.index('(', m.end())
            pclose = rs.match_brace(msk, popen)
            params = text[popen + 1:pclose]
            args, depth, cur = [], 0, ''
            for ch in params:
                if ch in '<([{':
                    depth += 1
                elif ch in '>)]}':
                    depth -= 1
                if ch == ',' and depth == 0:
                    args.append(cur); cur = ''
                else:
                    cur += ch
            if cur.strip():
                args.append(cur)
            names = []
            for a in args:
                pat = a.split(':', 1)[0].strip()
                pat = re.sub(r'^(mut|ref)\s+', '', pat)
                if not re.fullmatch(r'\w+', pat):
                    names = None
                    break
                names.append(pat)
            if names is None:
                break
            sig = text[:it['body_open']]
            fwd = sig + '{ ' + stub_path + stub_fn + '(' + ', '.join(names) + ') }\n'
            orig = text[:m.start()] + re.sub(r'\bfn\s+%s\b' % re.escape(name), 'fn %s__verif_orig' % name, text[m.start():], count=1)
            src = src[:it['start']] + '#[allow(dead_code)]\n' + orig + '\n' + fwd + src[it['end']:]
            open(pth, 'w').write(src)
            applied.append(target)
            done = True
            break
        if not done:
            skipped.append(target)
    return applied, skipped


def playback(xt_dir, hdir, harness, harness_file, timeout=900, harness_modpath=None, harness_src_rel=None):
    """Concrete playback of a failing harness: returns dict(test_src, reproduced, panic, output)."""
    env = dict(os.environ, CARGO_NET_OFFLINE='true')
    cmd = ['cargo', 'kani', '-Z', 'function-contracts', '-Z', 'stubbing', '-Z', 'concrete-playback',
           '--concrete-playback=print', '--exact', '--harness', harness]
    try:
        p = subprocess.run(cmd, cwd=xt_dir, env=env, stdout=subprocess.PIPE, stderr=subprocess.STDOUT, text=True, timeout=timeout)
    except subprocess.TimeoutExpired:
        return dict(test_src=None, reproduced=False, panic=None, output='playback generation timed out')
    out = p.stdout
    # Kani prints one unit test per failed check AND per satisfied cover; take a test generated for a failed check
    blocks = re.findall(r'(/// Test generated for harness.*?\n}\n)', out, re.S)
    if not blocks:
        return dict(test_src=None, reproduced=False, panic=None, output=out[-4000:])
    non_cover = [b for b in blocks if not re.search(r'Check for `cover`', b)]
    test_src = (non_cover or blocks)[0]
    tn = re.search(r'fn (kani_concrete_playback_\w+)', test_src)
    if not tn:
        return dict(test_src=test_src, reproduced=False, panic=None, output=out[-4000:])
    test_name = tn.group(1)
    hf = os.path.join(hdir, harness_file)
    with open(hf, 'a') as f:
        f.write('\n' + test_src + '\n')
    applied, skipped = [], []
    if harness_src_rel is not None:
        try:
            applied, skipped = apply_local_stubs(xt_dir, hdir, harness_file, harness.split('::')[-1], harness_modpath or '', harness_src_rel)
        except Exception as e:  # replay fidelity only; never fatal
            skipped = ['(stub application failed: %s)' % e]
    res = run_playback_test(xt_dir, test_name, test_src, timeout)
    res['stubs_applied_natively'] = applied
    res['stubs_not_applied'] = skipped
    return res


def run_playback_test(xt_dir, test_name, test_src, timeout=300):
    env = dict(os.environ, CARGO_NET_OFFLINE='true')
    # playback needs unwinding: drop `panic = "abort"` from the scratch manifest (only change)
    ct = os.path.join(xt_dir, 'Cargo.toml')
    s = open(ct).read()
    s2 = re.sub(r'(?m)^panic\s*=\s*"abort"\s*\n', '', s)
    if s2 != s:
        open(ct, 'w').write(s2)
    cmd = ['cargo', 'kani', 'playback', '-Z', 'concrete-playback', '--', test_name]
    try:
        p = subprocess.run(cmd, cwd=xt_dir, env=env, stdout=subprocess.PIPE, stderr=subprocess.STDOUT, text=True, timeout=timeout)
    except subprocess.TimeoutExpired:
        return dict(test_src=test_src, test_name=test_name, reproduced=False, panic=None, output='playback run timed out')
    out = p.stdout
    ran = re.search(r'running (\d+) test', out)
    failed = re.search(r'test result: FAILED', out) is not None
    pm = re.search(r"panicked at ([^\n]*)\n([^\n]*)", out)
    panic = (pm.group(1) + ' :: ' + pm.group(2)) if pm else None
    # a native death by a memory-error signal also counts; SIGPIPE (13) does not: playback does not apply
    # stubs, so pipecheck's real exit path may legitimately raise it
    sig = re.search(r'\(signal: (4|6|7|11)\b[^\n]*', out)
    reproduced = bool(failed and ran and pm) or bool(sig)
    errs = '\n'.join(re.findall(r'(?m)^error(?:\[E\d+\])?: .*(?:\n.*){0,6}', out)[:6])
    return dict(test_src=test_src, test_name=test_name, reproduced=reproduced,
                panic=panic or (sig.group(0) if sig else None), output=(errs + '\n...\n' if errs else '') + out[-3000:])


def native_search(repo, scratch, src_rel, native_file, timeout=600):
    """Bounded native search for a concrete failing input (helper for Verus failures; never a deciding step)."""
    sdir = os.path.join(scratch, 'native')
    os.makedirs(sdir, exist_ok=True)
    xt_dir = make_scratch(repo, sdir)
    hdir = os.path.join(sdir, 'harness')
    os.makedirs(hdir, exist_ok=True)
    for f in os.listdir(HARNESS_SRC):
        if f.endswith('.rs'):
            shutil.copy(os.path.join(HARNESS_SRC, f), os.path.join(hdir, f))
    ndir = os.path.join(sdir, 'native_src')
    os.makedirs(ndir, exist_ok=True)
    shutil.copy(os.path.join(VERIF, 'contracts', 'native', native_file), os.path.join(ndir, native_file))
    with open(os.path.join(xt_dir, src_rel), 'a') as f:
        f.write('\n#[cfg(test)] #[path = "%s"] mod verif_native;\n' % os.path.join(ndir, native_file))
    ct = os.path.join(xt_dir, 'Cargo.toml')
    t = open(ct).read()
    open(ct, 'w').write(re.sub(r'(?m)^panic\s*=\s*"abort"\s*\n', '', t))
    # optimised build, but with the overflow / debug assertions of the dev profile, so that arithmetic panics show
    env = dict(os.environ, CARGO_NET_OFFLINE='true', RUSTFLAGS='-C overflow-checks=on -C debug-assertions=on')
    cmd = ['cargo', 'test', '--offline', '--release', '--lib', 'verif_native_search', '--', '--nocapture', '--test-threads', '1']
    try:
        p = subprocess.run(cmd, cwd=xt_dir, env=env, stdout=subprocess.PIPE, stderr=subprocess.STDOUT, text=True, timeout=timeout)
    except subprocess.TimeoutExpired:
        return dict(found=None, output='native search timed out', cmd=' '.join(cmd))
    m = re.search(r'FAILING-INPUT: (.*)$', p.stdout, re.M)
    return dict(found=m.group(1) if m else None, output=p.stdout[-1500:], cmd=' '.join(cmd), exhausted='NO-FAILING-INPUT-FOUND' in p.stdout)
