"""Small Rust source scanner: comment/string-aware masking, item extraction, tokenisation.

Used to pull the *real* text of functions/enums/consts out of /repo (and the rmp crate) on every
run, so that what Verus verifies is the code that runs and not a hand-written look-alike.
"""
import re


class ScanError(Exception):
    """Lost anchor / unsupported construct: the caller maps this to exit 2 (undecided)."""


def mask(src):
    """Return a string of the same length where the *contents* of comments, string literals and
    char literals are replaced (comments by spaces, literal contents by '~'; newlines kept), so that brace matching and regexes only
    see code."""
    out = list(src)
    i, n = 0, len(src)

    def blank(a, b, fill=' '):
        for k in range(a, b):
            if out[k] != '\n':
                out[k] = fill

    while i < n:
        c = src[i]
        if src.startswith('//', i):
            j = src.find('\n', i)
            j = n if j < 0 else j
            blank(i, j)
            i = j
        elif src.startswith('/*', i):
            depth, j = 1, i + 2
            while j < n and depth:
                if src.startswith('/*', j):
                    depth += 1; j += 2
                elif src.startswith('*/', j):
                    depth -= 1; j += 2
                else:
                    j += 1
            blank(i, j)
            i = j
        elif c == '"' or (c == 'r' and re.match(r'r#*"', src[i:i + 8]) and not (i > 0 and (src[i - 1].isalnum() or src[i - 1] == '_'))) \
                or (c == 'b' and re.match(r'b(r#*)?"', src[i:i + 9]) and not (i > 0 and (src[i - 1].isalnum() or src[i - 1] == '_'))):
            m = re.match(r'b?(r(#*))?"', src[i:])
            raw, hashes = m.group(1) is not None, m.group(2) or ''
            j = i + m.end()
            if raw:
                end = src.find('"' + hashes, j)
                end = n if end < 0 else end
                blank(j, end, '~')
                i = end + 1 + len(hashes)
            else:
                while j < n and src[j] != '"':
                    j += 2 if src[j] == '\\' else 1
                blank(i + m.end(), j, '~')
                i = j + 1
        elif c == "'":
            # char literal or lifetime
            m = re.match(r"'(\\.[^']*|[^'\\])'", src[i:])
            if m:
                blank(i + 1, i + m.end() - 1, '~')
                i += m.end()
            else:
                i += 1
        else:
            i += 1
    return ''.join(out)


def match_brace(msk, open_idx):
    """Index of the brace matching msk[open_idx] ('{', '(' or '[')."""
    pairs = {'{': '}', '(': ')', '[': ']'}
    o = msk[open_idx]
    c = pairs[o]
    depth = 0
    for k in range(open_idx, len(msk)):
        ch = msk[k]
        if ch == o:
            depth += 1
        elif ch == c:
            depth -= 1
            if depth == 0:
                return k
    raise ScanError('unbalanced %s at %d' % (o, open_idx))


KIND_RE = {
    'fn': r'\bfn\s+%s\b',
    'enum': r'\benum\s+%s\b',
    'struct': r'\bstruct\s+%s\b',
    'const': r'\bconst\s+%s\b',
    'macro': r'\bmacro_rules!\s+%s\b',
    'trait': r'\btrait\s+%s\b',
}


def find_item(src, kind, name, within=None):
    """Locate an item by kind and name (optionally only inside the span `within` = (a, b)).
    Returns dict(start, end, text, attrs, body_open) where text excludes doc comments but the
    span start..end covers the item proper (from the start of its line to its closing brace /
    semicolon). attrs are the `#[...]` attribute lines found directly above it."""
    msk = mask(src)
    a, b = within if within else (0, len(src))
    pat = re.compile(KIND_RE[kind] % re.escape(name))
    hits = [m for m in pat.finditer(msk, a, b)]
    if len(hits) != 1:
        raise ScanError('anchor %s %s: %d matches' % (kind, name, len(hits)))
    m = hits[0]
    start = src.rfind('\n', 0, m.start()) + 1
    if msk[start:m.start()].strip(' \t') and not re.fullmatch(r'\s*(pub(\([^)]*\))?\s+)?(unsafe\s+)?(const\s+)?(static\s+)?', msk[start:m.start()]):
        raise ScanError('anchor %s %s: unexpected text before keyword: %r' % (kind, name, src[start:m.start()]))
    # attributes above (skipping doc comments and blank-less adjacency)
    attrs = []
    p = start
    while True:
        q = src.rfind('\n', 0, p - 1) + 1 if p > 0 else 0
        line = src[q:p].strip()
        if p == 0 or q == p:
            break
        if line.startswith('#['):
            attrs.insert(0, line)
            p = q
        elif line.startswith('///') or line.startswith('//'):
            p = q
        else:
            break
    if kind == 'const':
        end = msk.index(';', m.end()) + 1
        return dict(start=start, end=end, text=src[start:end], attrs=attrs, body_open=None)
    body_open = msk.index('{', m.end())
    semi = msk.find(';', m.end())
    if 0 <= semi < body_open and kind == 'struct':
        return dict(start=start, end=semi + 1, text=src[start:semi + 1], attrs=attrs, body_open=None)
    end = match_brace(msk, body_open) + 1
    return dict(start=start, end=end, text=src[start:end], attrs=attrs, body_open=body_open - start)


def find_impl_span(src, header_regex):
    """Span (a, b) of the body of the unique `impl` block whose header matches header_regex."""
    msk = mask(src)
    hits = [m for m in re.finditer(header_regex, msk)]
    if len(hits) != 1:
        raise ScanError('impl anchor %r: %d matches' % (header_regex, len(hits)))
    o = msk.index('{', hits[0].end() - 1) if msk[hits[0].end() - 1] != '{' else hits[0].end() - 1
    return (o, match_brace(msk, o) + 1)


TOKEN_RE = re.compile(r'''
    [A-Za-z_][A-Za-z0-9_]*      |
    0[xXbBoO][0-9a-fA-F_]+[A-Za-z0-9_]* |
    [0-9][0-9_]*(\.[0-9][0-9_]*)?([eE][+-]?[0-9_]+)?[A-Za-z0-9_]* |
    b?r\#*"                    |
    b?"(\\.|[^"\\])*"          |
    b?'(\\.[^']*|[^'\\])'      |
    '[A-Za-z_][A-Za-z0-9_]*     |
    \S
''', re.X)


def strip_comments(src):
    msk = mask(src)
    out = []
    i, n = 0, len(src)
    while i < n:
        if src.startswith('//', i) and msk[i] == ' ':
            j = src.find('\n', i)
            i = n if j < 0 else j
        elif src.startswith('/*', i) and msk[i] == ' ':
            depth, j = 1, i + 2
            while j < n and depth:
                if src.startswith('/*', j):
                    depth += 1; j += 2
                elif src.startswith('*/', j):
                    depth -= 1; j += 2
                else:
                    j += 1
            i = j
            out.append(' ')
        else:
            out.append(src[i])
            i += 1
    return ''.join(out)


def tokens(src):
    """Token list of Rust source with comments removed (good enough for equality checks)."""
    s = strip_comments(src)
    return [m.group(0) for m in TOKEN_RE.finditer(s)]


def line_of(src, idx):
    return src.count('\n', 0, idx) + 1
