// Design-phase probe (not framework code): harness module that was appended to a scratch copy of src/json.rs
#[cfg(kani)]
mod verif_kani {
	use super::*;
	use serde::de::{Deserializer, Visitor as DeVisitor};
	use serde::forward_to_deserialize_any;
	use crate::Output as _;
	use std::fmt;

	#[derive(Debug)]
	struct DeErr;
	impl fmt::Display for DeErr { fn fmt(&self, _: &mut fmt::Formatter) -> fmt::Result { Ok(()) } }
	impl std::error::Error for DeErr {}
	impl de::Error for DeErr { fn custom<T: fmt::Display>(_: T) -> Self { DeErr } }

	struct MockDe(bool);
	impl<'de> Deserializer<'de> for MockDe {
		type Error = DeErr;
		fn deserialize_any<V: DeVisitor<'de>>(self, v: V) -> Result<V::Value, DeErr> { v.visit_bool(self.0) }
		forward_to_deserialize_any! {
			bool i8 i16 i32 i64 i128 u8 u16 u32 u64 u128 f32 f64 char str string
			bytes byte_buf option unit unit_struct newtype_struct seq tuple
			tuple_struct map struct enum identifier ignored_any
		}
	}

	struct W { log: [u8; 16], n: usize }
	impl Write for W {
		fn write(&mut self, buf: &[u8]) -> io::Result<usize> {
			let mut i = 0;
			while i < buf.len() && self.n < 16 { self.log[self.n] = buf[i]; self.n += 1; i += 1; }
			Ok(buf.len())
		}
		fn flush(&mut self) -> io::Result<()> { Ok(()) }
		fn write_fmt(&mut self, args: fmt::Arguments<'_>) -> io::Result<()> {
			match args.as_str() { Some(s) => self.write_all(s.as_bytes()), None => { assert!(false); Ok(()) } }
		}
	}

	#[kani::proof]
	#[kani::unwind(8)]
	fn json_doc_framing() {
		let mut out = Output::new(W { log: [0; 16], n: 0 });
		let b1: bool = kani::any();
		let b2: bool = kani::any();
		assert!(out.transcode_from(MockDe(b1)).is_ok());
		let n1 = out.0.n;
		assert!(out.0.log[n1 - 1] == b'\n');
		assert!(out.transcode_from(MockDe(b2)).is_ok());
		let n2 = out.0.n;
		assert!(out.0.log[n2 - 1] == b'\n');
		// exactly one newline per document
		let mut i = 0; let mut nl = 0;
		while i < n2 { if out.0.log[i] == b'\n' { nl += 1; } i += 1; }
		assert!(nl == 2);
	}
}
