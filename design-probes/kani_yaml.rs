// Design-phase probe (not framework code): harness module that was appended to a scratch copy of src/yaml.rs
#[cfg(kani)]
mod verif_kani {
	use super::*;

	struct NoOutput;
	impl crate::Output for NoOutput {
		fn transcode_from<'de, D, E>(&mut self, _de: D) -> crate::Result<()>
		where D: de::Deserializer<'de, Error = E>, E: de::Error + Send + Sync + 'static { Ok(()) }
		fn transcode_value<S>(&mut self, _value: S) -> crate::Result<()> where S: ser::Serialize { Ok(()) }
		fn flush(&mut self) -> io::Result<()> { Ok(()) }
	}

	static mut READER_PATH: bool = false;
	static mut FAST_PATH: bool = false;

	// Assumed contract of serde_yaml::Deserializer::from_str: the text must be the UTF-8
	// encoding of the YAML stream (YAML 1.2.2 section 5.2 would read anything else differently).
	fn from_str_contract<'de>(s: &'de str) -> serde_yaml::Deserializer<'de> where 'de: 'de {
		unsafe { FAST_PATH = true; }
		assert!(matches!(Encoding::detect(s.as_bytes()), Encoding::Utf8));
		kani::assume(false);
		unreachable!()
	}
	fn transcode_reader_stub<R: BufRead, O: crate::Output>(_input: R, _output: O) -> crate::Result<()> {
		unsafe { READER_PATH = true; }
		Ok(())
	}

	#[kani::proof]
	#[kani::unwind(6)]
	#[kani::stub(serde_yaml::Deserializer::from_str, from_str_contract)]
	#[kani::stub(transcode_reader, transcode_reader_stub)]
	fn yaml_slice_fast_path_requires_utf8_stream() {
		let b: [u8; 4] = kani::any();
		let n: usize = kani::any();
		kani::assume(n <= 4);
		let _ = transcode(input::Handle::from_slice(&b[..n]), NoOutput);
	}
}
