// Design-phase probe (not framework code): harness module that was appended to a scratch copy of src/yaml/encoding.rs
#[cfg(kani)]
mod verif_kani {
	use super::*;
	pub(super) fn enc_code(e: &Encoding) -> u8 { match e { Encoding::Utf8 => 0, Encoding::Utf16Big => 1, Encoding::Utf32Big => 2, Encoding::Utf16Little => 3, Encoding::Utf32Little => 4 } }
	// YAML 1.2.2 section 5.2 table, row by row, first match wins.
	pub(super) fn spec_detect(p: &[u8]) -> u8 {
		let n = p.len();
		let b = |i: usize| p[i];
		if n >= 4 && b(0) == 0 && b(1) == 0 && b(2) == 0xFE && b(3) == 0xFF { return 2; } // UTF-32BE BOM
		if n >= 4 && b(0) == 0 && b(1) == 0 && b(2) == 0 { return 2; }                     // UTF-32BE ASCII first
		if n >= 4 && b(0) == 0xFF && b(1) == 0xFE && b(2) == 0 && b(3) == 0 { return 4; }   // UTF-32LE BOM
		if n >= 4 && b(1) == 0 && b(2) == 0 && b(3) == 0 { return 4; }                      // UTF-32LE ASCII first
		if n >= 2 && b(0) == 0xFE && b(1) == 0xFF { return 1; }                             // UTF-16BE BOM
		if n >= 2 && b(0) == 0 { return 1; }                                                // UTF-16BE ASCII first
		if n >= 2 && b(0) == 0xFF && b(1) == 0xFE { return 3; }                             // UTF-16LE BOM
		if n >= 2 && b(1) == 0 { return 3; }                                                // UTF-16LE ASCII first
		0
	}
	#[kani::proof_for_contract(Encoding::detect)]
	fn detect_contract() {
		let b: [u8; 6] = kani::any();
		let n: usize = kani::any();
		kani::assume(n <= 6);
		Encoding::detect(&b[..n]);
	}
}

// ---- second probe in the same module (verified in 8 s, 741 checks): one step of Utf16Decoder::next
// from an arbitrary decoder state, all unit values, both endiannesses ----
#[cfg(kani)]
mod verif_kani_utf16_step {
	use super::*;
	fn spec_scalar_ok(c: u32) -> bool { c <= 0x10FFFF && !(0xD800..=0xDFFF).contains(&c) }
	#[kani::proof]
	fn utf16_next_step() {
		let bytes: [u8; 7] = kani::any();
		let n: usize = kani::any();
		kani::assume(n <= 7);
		let big: bool = kani::any();
		let endian = if big { Endianness::Big } else { Endianness::Little };
		let mut dec = Utf16Decoder::new(&bytes[..n], endian);
		let pending: Option<u16> = kani::any();
		dec.buf = pending;
		let pos0: u64 = kani::any();
		kani::assume(pos0 < u64::MAX - 16);
		dec.pos = pos0;
		let unit = |i: usize| -> u16 {
			if big { u16::from_be_bytes([bytes[2*i], bytes[2*i+1]]) } else { u16::from_le_bytes([bytes[2*i], bytes[2*i+1]]) }
		};
		let r = dec.next();
		let have0 = pending.is_some() || n >= 2;
		let u0 = match pending { Some(u) => u, None => if n >= 2 { unit(0) } else { 0 } };
		let consumed0 = if pending.is_some() { 0 } else { 2 };
		match r {
			None => { assert!(pending.is_none() && n == 0); }
			Some(Ok(ch)) => {
				assert!(have0);
				let c = ch as u32;
				assert!(spec_scalar_ok(c));
				if !(0xD800..=0xDFFF).contains(&u0) {
					assert!(c == u0 as u32);
					assert!(dec.source.len() == n - consumed0);
					assert!(dec.buf.is_none());
				} else {
					assert!((0xD800..=0xDBFF).contains(&u0));
					assert!(n >= consumed0 + 2);
					let u1 = unit(consumed0 / 2);
					assert!((0xDC00..=0xDFFF).contains(&u1));
					assert!(c == 0x10000 + (((u0 as u32 - 0xD800) << 10) | (u1 as u32 - 0xDC00)));
					assert!(dec.source.len() == n - consumed0 - 2);
					assert!(dec.buf.is_none());
				}
			}
			Some(Err(_)) => {
				let wellformed_bmp = have0 && !(0xD800..=0xDFFF).contains(&u0);
				assert!(!wellformed_bmp);
				if have0 && (0xD800..=0xDBFF).contains(&u0) && n >= consumed0 + 2 {
					let u1 = unit(consumed0 / 2);
					assert!(!(0xDC00..=0xDFFF).contains(&u1));
				}
			}
		}
	}
}
