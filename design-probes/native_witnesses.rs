use xt::Format;
use std::io::{self, Write};

struct FailAt { k: usize, n: usize }
impl Write for FailAt {
	fn write(&mut self, b: &[u8]) -> io::Result<usize> {
		if self.n + b.len() > self.k { return Err(io::Error::new(io::ErrorKind::Other, "DISK-ON-FIRE")); }
		self.n += b.len(); Ok(b.len())
	}
	fn flush(&mut self) -> io::Result<()> { Ok(()) }
}

#[test]
fn probe() {
	// F3
	let mut out = vec![];
	let r = xt::translate_slice(&[0x91], None, Format::Json, &mut out);
	println!("F3 slice [0x91] detect: {:?}", r.map_err(|e| e.to_string()));
	let r = xt::translate_reader(&[0x91u8][..], None, Format::Json, &mut out);
	println!("F3 reader [0x91] detect: {:?}", r.map_err(|e| e.to_string()));
	let y = "\u{0710}: 1\n";
	let r = xt::translate_slice(y.as_bytes(), None, Format::Json, &mut out);
	println!("F3 yaml U+0710 slice detect: {:?} out={:?}", r.map_err(|e| e.to_string()), String::from_utf8_lossy(&out));
	// F2
	let text = "a: 1\n";
	let utf16le: Vec<u8> = text.encode_utf16().flat_map(|u| u.to_le_bytes()).collect();
	let mut o1 = vec![]; let r1 = xt::translate_slice(&utf16le, Some(Format::Yaml), Format::Json, &mut o1);
	let mut o2 = vec![]; let r2 = xt::translate_reader(&utf16le[..], Some(Format::Yaml), Format::Json, &mut o2);
	println!("F2 slice: {:?} {:?}", r1.map_err(|e| e.to_string()), String::from_utf8_lossy(&o1));
	println!("F2 reader: {:?} {:?}", r2.map_err(|e| e.to_string()), String::from_utf8_lossy(&o2));
	// F1
	for k in 0..12 {
		let r = xt::translate_slice(b"{\"a\":[1,2],\"b\":3}", Some(Format::Json), Format::Json, FailAt { k, n: 0 });
		println!("F1 k={k}: {:?}", r.map_err(|e| e.to_string()));
	}
	for k in 0..12 {
		let r = xt::translate_reader(&b"{\"a\":[1,2],\"b\":3}"[..], Some(Format::Json), Format::Json, FailAt { k, n: 0 });
		println!("F1r k={k}: {:?}", r.map_err(|e| e.to_string()));
	}
}
