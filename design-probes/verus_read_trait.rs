use vstd::prelude::*;
use std::io::{self, Read, Write, Cursor};
verus! {

#[verifier::external_type_specification]
#[verifier::external_body]
pub struct ExIoError(std::io::Error);




#[verifier::external_trait_specification]
pub trait ExRead {
    type ExternalTraitSpecificationFor: std::io::Read;
    fn read(&mut self, buf: &mut [u8]) -> (r: std::io::Result<usize>);
}

fn fill<R: Read>(r: &mut R, buf: &mut [u8]) -> (res: io::Result<usize>)
{
    let k = if buf.len() < 3 { buf.len() } else { 3 };
    let sub = &mut buf[..k];
    let n = r.read(sub)?;
    Ok(n)
}

} // verus!
fn main() {}
