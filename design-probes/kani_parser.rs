// Design-phase probe (not framework code): harness module that was appended to a scratch copy of src/yaml/chunker/parser.rs
#[cfg(kani)]
mod verif_kani {
	use super::*;

	/// A reader that may lie: returns any Ok(n) (even n > buf.len()) or an error,
	/// and writes arbitrary bytes into the part of buf it really owns.
	struct AnyReader;
	impl Read for AnyReader {
		fn read(&mut self, buf: &mut [u8]) -> io::Result<usize> {
			if kani::any() { return Err(io::ErrorKind::Other.into()); }
			let mut i = 0;
			while i < buf.len() { buf[i] = kani::any(); i += 1; }
			Ok(kani::any())
		}
	}

	#[kani::proof]
	#[kani::unwind(6)]
	fn read_handler_contract() {
		let state = Box::into_raw(Box::new(ReadState { reader: AnyReader, bouncer: vec![], error: None }));
		let mut dest = [0xAAu8; 4];
		let cap: u64 = kani::any();
		kani::assume(cap <= 4);
		let mut size_read: u64 = 77;
		let rc = unsafe {
			Parser::<AnyReader>::read_handler(state.cast::<c_void>(), dest.as_mut_ptr(), cap, &mut size_read)
		};
		let st = unsafe { Box::from_raw(state) };
		if rc == 1 {
			assert!(size_read <= cap);
			assert!(st.error.is_none());
			let mut i = 0;
			while i < size_read as usize { assert!(dest[i] == st.bouncer[i]); i += 1; }
			// nothing beyond size_read was touched
			let mut j = size_read as usize;
			while j < 4 { assert!(dest[j] == 0xAA); j += 1; }
		} else {
			assert!(rc == 0);
			assert!(st.error.is_some());
			assert!(size_read == 77);
			let mut j = 0;
			while j < 4 { assert!(dest[j] == 0xAA); j += 1; }
		}
	}
}
