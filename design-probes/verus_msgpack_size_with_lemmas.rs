use vstd::prelude::*;
use vstd::std_specs::convert::IntoSpec;
verus! {
global size_of usize == 8;



// ---------- specification (written from the MessagePack format spec) ----------
pub open spec fn be16(s: Seq<u8>) -> nat { (s[1] as nat) * 256 + (s[2] as nat) }
pub open spec fn be32(s: Seq<u8>) -> nat { (s[1] as nat) * 16777216 + (s[2] as nat) * 65536 + (s[3] as nat) * 256 + (s[4] as nat) }

pub open spec fn tail(s: Seq<u8>, k: nat) -> Seq<u8> { s.subrange(k as int, s.len() as int) }

// Size of the first value of `s`, if `s` starts with a complete well-formed value whose
// nesting depth (scalar = 1, collection = 1 + deepest child) is at most `d`.
pub open spec fn mp_value(s: Seq<u8>, d: nat) -> Option<nat>
    decreases d, 1nat, 0nat
{
    if d == 0 || s.len() == 0 { None } else {
        let b = s[0];
        let body: Option<nat> =
            if b <= 0x7f || b >= 0xe0 || b == 0xc0 || b == 0xc2 || b == 0xc3 { Some(1nat) }
            else if b == 0xc1 { None }
            else if b == 0xcc || b == 0xd0 { Some(2nat) }
            else if b == 0xcd || b == 0xd1 { Some(3nat) }
            else if b == 0xce || b == 0xd2 || b == 0xca { Some(5nat) }
            else if b == 0xcf || b == 0xd3 || b == 0xcb { Some(9nat) }
            else if b == 0xd4 { Some(3nat) } else if b == 0xd5 { Some(4nat) } else if b == 0xd6 { Some(6nat) }
            else if b == 0xd7 { Some(10nat) } else if b == 0xd8 { Some(18nat) }
            else if b == 0xc7 { if s.len() >= 2 { Some(3 + s[1] as nat) } else { None } }
            else if b == 0xc8 { if s.len() >= 3 { Some(4 + be16(s)) } else { None } }
            else if b == 0xc9 { if s.len() >= 5 { Some(6 + be32(s)) } else { None } }
            else if 0xa0 <= b <= 0xbf { Some(1 + (b - 0xa0) as nat) }
            else if b == 0xd9 || b == 0xc4 { if s.len() >= 2 { Some(2 + s[1] as nat) } else { None } }
            else if b == 0xda || b == 0xc5 { if s.len() >= 3 { Some(3 + be16(s)) } else { None } }
            else if b == 0xdb || b == 0xc6 { if s.len() >= 5 { Some(5 + be32(s)) } else { None } }
            else if 0x90 <= b <= 0x9f { mp_add(1, mp_items(tail(s, 1), (b - 0x90) as nat, d)) }
            else if 0x80 <= b <= 0x8f { mp_add(1, mp_items(tail(s, 1), 2 * ((b - 0x80) as nat), d)) }
            else if b == 0xdc { if s.len() >= 3 { mp_add(3, mp_items(tail(s, 3), be16(s), d)) } else { None } }
            else if b == 0xde { if s.len() >= 3 { mp_add(3, mp_items(tail(s, 3), 2 * be16(s), d)) } else { None } }
            else if b == 0xdd { if s.len() >= 5 { mp_add(5, mp_items(tail(s, 5), be32(s), d)) } else { None } }
            else { /* 0xdf */ if s.len() >= 5 { mp_add(5, mp_items(tail(s, 5), 2 * be32(s), d)) } else { None } };
        match body { Some(n) => if n <= s.len() { Some(n) } else { None }, None => None }
    }
}

pub open spec fn mp_add(k: nat, r: Option<nat>) -> Option<nat> { match r { Some(n) => Some(k + n), None => None } }

// Total size of `count` consecutive values at the start of `s`, each of depth <= d-1.
pub open spec fn mp_items(s: Seq<u8>, count: nat, d: nat) -> Option<nat>
    decreases d, 0nat, count
{
    if count == 0 { Some(0nat) }
    else if d == 0 { None }
    else {
        match mp_value(s, (d - 1) as nat) {
            None => None,
            Some(n) => mp_add(n, mp_items(tail(s, n), (count - 1) as nat, d)),
        }
    }
}



#[verifier::external_body]
pub broadcast proof fn axiom_u32_into_u32(x: u32)
    ensures #[trigger] IntoSpec::<u32>::into_spec(x) == x,
{ }
#[verifier::external_body]
pub proof fn axiom_u32_obeys()
    ensures <u32 as IntoSpec<u32>>::obeys_into_spec(),
{ }

pub broadcast proof fn lemma_mask_0f(n: u8)
    ensures 0x80 <= n <= 0x8f ==> #[trigger] (n & 0x0f) == n - 0x80,
            0x90 <= n <= 0x9f ==> (n & 0x0f) == n - 0x90,
{ assert(0x80 <= n <= 0x8f ==> (n & 0x0f) == n - 0x80) by (bit_vector);
  assert(0x90 <= n <= 0x9f ==> (n & 0x0f) == n - 0x90) by (bit_vector); }
pub broadcast proof fn lemma_mask_1f(n: u8)
    ensures 0xa0 <= n <= 0xbf ==> #[trigger] (n & 0x1f) == n - 0xa0,
{ assert(0xa0 <= n <= 0xbf ==> (n & 0x1f) == n - 0xa0) by (bit_vector); }

// mp_value result is bounded by the input and positive
pub proof fn lemma_value_bounds(s: Seq<u8>, d: nat)
    ensures mp_value(s, d) matches Some(n) ==> 1 <= n <= s.len(),
{ }

// consecutive-items split: items(a+b) = items(a) then items(b) on the rest
pub proof fn lemma_items_split(s: Seq<u8>, a: nat, b: nat, d: nat)
    ensures
        mp_items(s, a, d) is None ==> mp_items(s, a + b, d) is None,
        mp_items(s, a, d) matches Some(n) ==> n <= s.len() && mp_items(s, a + b, d) == mp_add(n, mp_items(tail(s, n), b, d)),
    decreases a
{
    if a == 0 {
        assert(tail(s, 0) =~= s);
        match mp_items(s, b, d) { Some(m) => {}, None => {} }
    } else if d == 0 {
    } else {
        match mp_value(s, (d - 1) as nat) {
            None => {},
            Some(n) => {
                lemma_value_bounds(s, (d - 1) as nat);
                lemma_items_split(tail(s, n), (a - 1) as nat, b, d);
                match mp_items(tail(s, n), (a - 1) as nat, d) {
                    None => {},
                    Some(m) => {
                        assert(tail(tail(s, n), m) =~= tail(s, n + m));
                    }
                }
            }
        }
    }
}


// ---- depth lemmas (C18) ----
pub proof fn lemma_value_mono(s: Seq<u8>, d: nat, e: nat)
    requires d <= e, mp_value(s, d) is Some,
    ensures mp_value(s, e) == mp_value(s, d),
    decreases d, 1nat, 0nat
{
    if d == 0 || s.len() == 0 { } else {
        let b = s[0];
        if 0x90 <= b <= 0x9f { lemma_items_mono(tail(s, 1), (b - 0x90) as nat, d, e); }
        else if 0x80 <= b <= 0x8f { lemma_items_mono(tail(s, 1), 2 * ((b - 0x80) as nat), d, e); }
        else if b == 0xdc && s.len() >= 3 { lemma_items_mono(tail(s, 3), be16(s), d, e); }
        else if b == 0xde && s.len() >= 3 { lemma_items_mono(tail(s, 3), 2 * be16(s), d, e); }
        else if b == 0xdd && s.len() >= 5 { lemma_items_mono(tail(s, 5), be32(s), d, e); }
        else if b == 0xdf && s.len() >= 5 { lemma_items_mono(tail(s, 5), 2 * be32(s), d, e); }
    }
}
pub proof fn lemma_items_mono(s: Seq<u8>, count: nat, d: nat, e: nat)
    requires d <= e, mp_items(s, count, d) is Some,
    ensures mp_items(s, count, e) == mp_items(s, count, d),
    decreases d, 0nat, count
{
    if count == 0 { } else if d == 0 { } else {
        lemma_value_mono(s, (d - 1) as nat, (e - 1) as nat);
        let n = mp_value(s, (d - 1) as nat).unwrap();
        lemma_items_mono(tail(s, n), (count - 1) as nat, d, e);
    }
}

// k one-element arrays (0x91) around nil (0xc0)
pub open spec fn nest_arr(k: nat) -> Seq<u8> decreases k { if k == 0 { seq![0xc0u8] } else { seq![0x91u8] + nest_arr((k - 1) as nat) } }

pub proof fn lemma_nest_arr(k: nat, d: nat)
    ensures nest_arr(k).len() == k + 1,
            mp_value(nest_arr(k), d) is Some <==> k + 1 <= d,
            mp_value(nest_arr(k), d) is Some ==> mp_value(nest_arr(k), d) == Some(k + 1),
    decreases k
{
    if k == 0 {
        assert(nest_arr(0)[0] == 0xc0u8);
    } else {
        let s = nest_arr(k);
        let inner = nest_arr((k - 1) as nat);
        lemma_nest_arr((k - 1) as nat, (d - 1) as nat);
        if d >= 1 { lemma_nest_arr((k - 1) as nat, (d - 2) as nat); }
        assert(s[0] == 0x91u8);
        assert(tail(s, 1) =~= inner);
        if d > 0 {
            // one item at depth d
            assert(mp_items(inner, 1, d) == match mp_value(inner, (d - 1) as nat) { None => None::<nat>, Some(n) => mp_add(n, mp_items(tail(inner, n), 0, d)) });
        }
    }
}
pub proof fn theorem_depth_limit_1024()
    ensures mp_value(nest_arr(1023), 1024) is Some, mp_value(nest_arr(1024), 1024) is None,
{ lemma_nest_arr(1023, 1024); lemma_nest_arr(1024, 1024); }


// ASSUMED spec of rmp_serde::Deserializer::deserialize_any's consumption (decode.rs: depth_count! on
// arrays, maps and ext): same layouts as mp_value, but entering a collection or ext needs d >= 2.
pub open spec fn rmp_value(s: Seq<u8>, d: nat) -> Option<nat>
    decreases d, 1nat, 0nat
{
    if d == 0 || s.len() == 0 { None } else {
        let b = s[0];
        let body: Option<nat> =
            if b <= 0x7f || b >= 0xe0 || b == 0xc0 || b == 0xc2 || b == 0xc3 { Some(1nat) }
            else if b == 0xc1 { None }
            else if b == 0xcc || b == 0xd0 { Some(2nat) }
            else if b == 0xcd || b == 0xd1 { Some(3nat) }
            else if b == 0xce || b == 0xd2 || b == 0xca { Some(5nat) }
            else if b == 0xcf || b == 0xd3 || b == 0xcb { Some(9nat) }
            else if b == 0xd4 { if d >= 2 { Some(3nat) } else { None } } else if b == 0xd5 { if d >= 2 { Some(4nat) } else { None } } else if b == 0xd6 { if d >= 2 { Some(6nat) } else { None } }
            else if b == 0xd7 { if d >= 2 { Some(10nat) } else { None } } else if b == 0xd8 { if d >= 2 { Some(18nat) } else { None } }
            else if b == 0xc7 { if s.len() >= 2 && d >= 2 { Some(3 + s[1] as nat) } else { None } }
            else if b == 0xc8 { if s.len() >= 3 && d >= 2 { Some(4 + be16(s)) } else { None } }
            else if b == 0xc9 { if s.len() >= 5 && d >= 2 { Some(6 + be32(s)) } else { None } }
            else if 0xa0 <= b <= 0xbf { Some(1 + (b - 0xa0) as nat) }
            else if b == 0xd9 || b == 0xc4 { if s.len() >= 2 { Some(2 + s[1] as nat) } else { None } }
            else if b == 0xda || b == 0xc5 { if s.len() >= 3 { Some(3 + be16(s)) } else { None } }
            else if b == 0xdb || b == 0xc6 { if s.len() >= 5 { Some(5 + be32(s)) } else { None } }
            else if 0x90 <= b <= 0x9f { if d < 2 { None } else { mp_add(1, rmp_items(tail(s, 1), (b - 0x90) as nat, d)) } }
            else if 0x80 <= b <= 0x8f { if d < 2 { None } else { mp_add(1, rmp_items(tail(s, 1), 2 * ((b - 0x80) as nat), d)) } }
            else if b == 0xdc { if s.len() >= 3 && d >= 2 { mp_add(3, rmp_items(tail(s, 3), be16(s), d)) } else { None } }
            else if b == 0xde { if s.len() >= 3 && d >= 2 { mp_add(3, rmp_items(tail(s, 3), 2 * be16(s), d)) } else { None } }
            else if b == 0xdd { if s.len() >= 5 && d >= 2 { mp_add(5, rmp_items(tail(s, 5), be32(s), d)) } else { None } }
            else { /* 0xdf */ if s.len() >= 5 && d >= 2 { mp_add(5, rmp_items(tail(s, 5), 2 * be32(s), d)) } else { None } };
        match body { Some(n) => if n <= s.len() { Some(n) } else { None }, None => None }
    }
}

pub open spec fn rmp_items(s: Seq<u8>, count: nat, d: nat) -> Option<nat>
    decreases d, 0nat, count
{
    if count == 0 { Some(0nat) }
    else if d == 0 { None }
    else {
        match rmp_value(s, (d - 1) as nat) {
            None => None,
            Some(n) => mp_add(n, rmp_items(tail(s, n), (count - 1) as nat, d)),
        }
    }
}

pub proof fn lemma_rmp_implies_mp_value(s: Seq<u8>, d: nat)
    requires rmp_value(s, d) is Some,
    ensures mp_value(s, d) == rmp_value(s, d),
    decreases d, 1nat, 0nat
{
    if d == 0 || s.len() == 0 { } else {
        let b = s[0];
        if 0x90 <= b <= 0x9f { lemma_rmp_implies_mp_items(tail(s, 1), (b - 0x90) as nat, d); }
        else if 0x80 <= b <= 0x8f { lemma_rmp_implies_mp_items(tail(s, 1), 2 * ((b - 0x80) as nat), d); }
        else if b == 0xdc && s.len() >= 3 { lemma_rmp_implies_mp_items(tail(s, 3), be16(s), d); }
        else if b == 0xde && s.len() >= 3 { lemma_rmp_implies_mp_items(tail(s, 3), 2 * be16(s), d); }
        else if b == 0xdd && s.len() >= 5 { lemma_rmp_implies_mp_items(tail(s, 5), be32(s), d); }
        else if b == 0xdf && s.len() >= 5 { lemma_rmp_implies_mp_items(tail(s, 5), 2 * be32(s), d); }
    }
}
pub proof fn lemma_rmp_implies_mp_items(s: Seq<u8>, count: nat, d: nat)
    requires rmp_items(s, count, d) is Some,
    ensures mp_items(s, count, d) == rmp_items(s, count, d),
    decreases d, 0nat, count
{
    if count == 0 { } else if d == 0 { } else {
        lemma_rmp_implies_mp_value(s, (d - 1) as nat);
        let n = rmp_value(s, (d - 1) as nat).unwrap();
        lemma_rmp_implies_mp_items(tail(s, n), (count - 1) as nat, d);
    }
}

const FIXSTR_SIZE   : u8 = 0x1f;
const FIXARRAY_SIZE : u8 = 0x0f;
const FIXMAP_SIZE   : u8 = 0x0f;

#[derive(Clone, Copy, Debug, PartialEq)]
pub enum Marker {
    FixPos(u8),
    FixNeg(i8),
    Null,
    True,
    False,
    U8, U16, U32, U64, I8, I16, I32, I64, F32, F64,
    FixStr(u8), Str8, Str16, Str32, Bin8, Bin16, Bin32,
    FixArray(u8), Array16, Array32, FixMap(u8), Map16, Map32,
    FixExt1, FixExt2, FixExt4, FixExt8, FixExt16, Ext8, Ext16, Ext32,
    Reserved,
}

impl Marker {
    pub fn from_u8(n: u8) -> (r: Marker)
        ensures
            n <= 0x7f ==> r == Marker::FixPos(n),
            n >= 0xe0 ==> r is FixNeg,
            0x80 <= n <= 0x8f ==> r == Marker::FixMap(n & 0x0f),
            0x90 <= n <= 0x9f ==> r == Marker::FixArray(n & 0x0f),
            0xa0 <= n <= 0xbf ==> r == Marker::FixStr(n & 0x1f),
            n == 0xc0 ==> r == Marker::Null, n == 0xc1 ==> r == Marker::Reserved,
            n == 0xc2 ==> r == Marker::False, n == 0xc3 ==> r == Marker::True,
            n == 0xc4 ==> r == Marker::Bin8, n == 0xc5 ==> r == Marker::Bin16, n == 0xc6 ==> r == Marker::Bin32,
            n == 0xc7 ==> r == Marker::Ext8, n == 0xc8 ==> r == Marker::Ext16, n == 0xc9 ==> r == Marker::Ext32,
            n == 0xca ==> r == Marker::F32, n == 0xcb ==> r == Marker::F64,
            n == 0xcc ==> r == Marker::U8, n == 0xcd ==> r == Marker::U16, n == 0xce ==> r == Marker::U32, n == 0xcf ==> r == Marker::U64,
            n == 0xd0 ==> r == Marker::I8, n == 0xd1 ==> r == Marker::I16, n == 0xd2 ==> r == Marker::I32, n == 0xd3 ==> r == Marker::I64,
            n == 0xd4 ==> r == Marker::FixExt1, n == 0xd5 ==> r == Marker::FixExt2, n == 0xd6 ==> r == Marker::FixExt4,
            n == 0xd7 ==> r == Marker::FixExt8, n == 0xd8 ==> r == Marker::FixExt16,
            n == 0xd9 ==> r == Marker::Str8, n == 0xda ==> r == Marker::Str16, n == 0xdb ==> r == Marker::Str32,
            n == 0xdc ==> r == Marker::Array16, n == 0xdd ==> r == Marker::Array32,
            n == 0xde ==> r == Marker::Map16, n == 0xdf ==> r == Marker::Map32,
    {
        match n {
            0x00 ..= 0x7f => Marker::FixPos(n),
            0xe0 ..= 0xff => Marker::FixNeg(n as i8),
            0x80 ..= 0x8f => Marker::FixMap(n & FIXMAP_SIZE),
            0x90 ..= 0x9f => Marker::FixArray(n & FIXARRAY_SIZE),
            0xa0 ..= 0xbf => Marker::FixStr(n & FIXSTR_SIZE),
            0xc0 => Marker::Null,
            0xc1 => Marker::Reserved,
            0xc2 => Marker::False,
            0xc3 => Marker::True,
            0xc4 => Marker::Bin8,
            0xc5 => Marker::Bin16,
            0xc6 => Marker::Bin32,
            0xc7 => Marker::Ext8,
            0xc8 => Marker::Ext16,
            0xc9 => Marker::Ext32,
            0xca => Marker::F32,
            0xcb => Marker::F64,
            0xcc => Marker::U8,
            0xcd => Marker::U16,
            0xce => Marker::U32,
            0xcf => Marker::U64,
            0xd0 => Marker::I8,
            0xd1 => Marker::I16,
            0xd2 => Marker::I32,
            0xd3 => Marker::I64,
            0xd4 => Marker::FixExt1,
            0xd5 => Marker::FixExt2,
            0xd6 => Marker::FixExt4,
            0xd7 => Marker::FixExt8,
            0xd8 => Marker::FixExt16,
            0xd9 => Marker::Str8,
            0xda => Marker::Str16,
            0xdb => Marker::Str32,
            0xdc => Marker::Array16,
            0xdd => Marker::Array32,
            0xde => Marker::Map16,
            0xdf => Marker::Map32,
        }
    }
}

#[derive(Clone, Debug, Eq, PartialEq)]
enum ReadSizeError {
	Truncated,
	InvalidMarker,
	DepthLimitExceeded,
}

fn next_value_size(input: &[u8], depth_limit: usize) -> (r: Result<usize, ReadSizeError>)
    ensures
        depth_limit > 0 && input.len() == 0 ==> r == Ok::<usize, ReadSizeError>(0),
        depth_limit == 0 ==> r is Err,
        input.len() > 0 ==> (r is Ok <==> mp_value(input@, depth_limit as nat) is Some),
        input.len() > 0 ==> (r matches Ok(n) ==> mp_value(input@, depth_limit as nat) == Some(n as nat) && 1 <= n <= input.len()),
    decreases depth_limit, 1nat, 0nat
{
    broadcast use lemma_mask_0f, lemma_mask_1f, axiom_u32_into_u32;
    proof { axiom_u32_obeys(); }
	if depth_limit == 0 {
		return Err(ReadSizeError::DepthLimitExceeded);
	}
	if input.is_empty() {
		return Ok(0);
	}

	let marker = Marker::from_u8(input[0]);
	let total_size = match marker {
		Marker::Reserved => return Err(ReadSizeError::InvalidMarker),

		Marker::Null | Marker::True | Marker::False | Marker::FixPos(_) | Marker::FixNeg(_) => 1,

		Marker::U8 | Marker::I8 => 2,
		Marker::U16 | Marker::I16 => 3,
		Marker::U32 | Marker::I32 | Marker::F32 => 5,
		Marker::U64 | Marker::I64 | Marker::F64 => 9,

		Marker::FixExt1 => 3,
		Marker::FixExt2 => 4,
		Marker::FixExt4 => 6,
		Marker::FixExt8 => 10,
		Marker::FixExt16 => 18,
		Marker::Ext8 => 3 + try_read_length_8(input)? as usize,
		Marker::Ext16 => 4 + try_read_length_16(input)? as usize,
		Marker::Ext32 => 6 + try_read_length_32(input)? as usize,

		Marker::FixStr(n) => 1 + n as usize,
		Marker::Str8 | Marker::Bin8 => 2 + try_read_length_8(input)? as usize,
		Marker::Str16 | Marker::Bin16 => 3 + try_read_length_16(input)? as usize,
		Marker::Str32 | Marker::Bin32 => 5 + try_read_length_32(input)? as usize,

		Marker::FixArray(count) => 1 + total_seq_size(&input[1..], count, depth_limit)?,
		Marker::FixMap(pairs) => 1 + total_map_size(&input[1..], pairs, depth_limit)?,
		Marker::Array16 => {
			let count = try_read_length_16(input)?;
			3 + total_seq_size(&input[3..], count, depth_limit)?
		}
		Marker::Map16 => {
			let pairs = try_read_length_16(input)?;
			3 + total_map_size(&input[3..], pairs, depth_limit)?
		}
		Marker::Array32 => {
			let count = try_read_length_32(input)?;
			5 + total_seq_size(&input[5..], count, depth_limit)?
		}
		Marker::Map32 => {
			let pairs = try_read_length_32(input)?;
			5 + total_map_size(&input[5..], pairs, depth_limit)?
		}
	};

	if total_size <= input.len() {
		Ok(total_size)
	} else {
		Err(ReadSizeError::Truncated)
	}
}

#[verifier::loop_isolation(false)]
fn total_seq_size<N>(input: &[u8], count: N, depth_limit: usize) -> (r: Result<usize, ReadSizeError>)
where
	N: Into<u32>,
    requires depth_limit >= 1, N::obeys_into_spec(),
    ensures
        r is Ok <==> mp_items(input@, count.into_spec() as nat, depth_limit as nat) is Some,
        r matches Ok(n) ==> mp_items(input@, count.into_spec() as nat, depth_limit as nat) == Some(n as nat) && n <= input.len(),
    decreases depth_limit, 0nat, 0nat
{
    broadcast use axiom_u32_into_u32;
    let ghost cnt0: u32 = count.into_spec();
	let count = count.into();
	let mut total = 0;
	let mut seq = input;
	for i in 0..count
        invariant
            count == cnt0,
            depth_limit >= 1,
            total <= input.len(),
            seq@ =~= tail(input@, total as nat),
            mp_items(input@, count as nat, depth_limit as nat) == mp_add(total as nat, mp_items(seq@, (count - i) as nat, depth_limit as nat)),
    {
		if seq.is_empty() {
			return Err(ReadSizeError::Truncated);
		}
		let size = next_value_size(seq, depth_limit - 1)?;
		total += size;
		seq = &seq[size..];
	}
	Ok(total)
}

fn total_map_size<N>(input: &[u8], pairs: N, depth_limit: usize) -> (r: Result<usize, ReadSizeError>)
where
	N: Into<u32>,
    requires depth_limit >= 1, N::obeys_into_spec(),
    ensures
        r is Ok <==> mp_items(input@, 2 * (pairs.into_spec() as nat), depth_limit as nat) is Some,
        r matches Ok(n) ==> mp_items(input@, 2 * (pairs.into_spec() as nat), depth_limit as nat) == Some(n as nat) && n <= input.len(),
    decreases depth_limit, 0nat, 1nat
{
    broadcast use axiom_u32_into_u32;
    proof { axiom_u32_obeys(); }
    proof { lemma_items_split(input@, pairs.into_spec() as nat, pairs.into_spec() as nat, depth_limit as nat); }
	let pairs = pairs.into();
	let first = total_seq_size(input, pairs, depth_limit)?;
	let second = total_seq_size(&input[first..], pairs, depth_limit)?;
	Ok(first + second)
}


#[verifier::external_body]
fn try_read_length_8(input: &[u8]) -> (r: Result<u8, ReadSizeError>)
    ensures input.len() >= 2 ==> r == Ok::<u8,ReadSizeError>(input[1]),
            input.len() < 2 ==> r == Err::<u8,ReadSizeError>(ReadSizeError::Truncated),
{ unimplemented!() }
#[verifier::external_body]
fn try_read_length_16(input: &[u8]) -> (r: Result<u16, ReadSizeError>)
    ensures input.len() >= 3 ==> r == Ok::<u16,ReadSizeError>((input[1] as u16 * 256 + input[2] as u16) as u16),
            input.len() < 3 ==> r == Err::<u16,ReadSizeError>(ReadSizeError::Truncated),
{ unimplemented!() }
#[verifier::external_body]
fn try_read_length_32(input: &[u8]) -> (r: Result<u32, ReadSizeError>)
    ensures input.len() >= 5 ==> r == Ok::<u32,ReadSizeError>((input[1] as u32 * 16777216 + input[2] as u32 * 65536 + input[3] as u32 * 256 + input[4] as u32) as u32),
            input.len() < 5 ==> r == Err::<u32,ReadSizeError>(ReadSizeError::Truncated),
{ unimplemented!() }
} // verus!
fn main() {}
