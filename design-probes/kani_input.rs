// Design-phase probe (not framework code): harness module that was appended to a scratch copy of src/input.rs
#[cfg(kani)]
mod verif_kani {
	use super::*;

	const N: usize = 6;

	/// A source that owns a fixed symbolic stream and delivers it with
	/// nondeterministic short reads and nondeterministic errors.
	struct Src { data: [u8; N], len: usize, off: usize, reads: usize }
	impl Read for Src {
		fn read(&mut self, buf: &mut [u8]) -> io::Result<usize> {
			self.reads += 1;
			if kani::any() { return Err(io::ErrorKind::Other.into()); }
			let avail = self.len - self.off;
			let want = std::cmp::min(avail, buf.len());
			let k: usize = kani::any();
			kani::assume(k <= want && (k > 0 || want == 0));
			let mut i = 0;
			while i < k { buf[i] = self.data[self.off + i]; i += 1; }
			self.off += k;
			Ok(k)
		}
	}

	#[kani::proof]
	#[kani::unwind(8)]
	fn capture_reader_read_step() {
		let data: [u8; N] = kani::any();
		let len: usize = kani::any(); kani::assume(len <= N);
		let off: usize = kani::any(); kani::assume(off <= len);
		// arbitrary valid state: captured == data[..off], position <= off
		let mut cr = CaptureReader::new(Src { data, len, off, reads: 0 });
		cr.prefix.get_mut().extend_from_slice(&data[..off]);
		let pos: usize = kani::any(); kani::assume(pos <= off);
		cr.prefix.set_position(pos as u64);
		cr.source_eof = kani::any();

		let mut buf = [0u8; 4];
		let bl: usize = kani::any(); kani::assume(bl <= 4);
		let r = cr.read(&mut buf[..bl]);
		let off1 = cr.source.off;
		// invariant preserved in every outcome
		assert!(cr.prefix.get_ref().len() == off1);
		let mut i = 0; while i < off1 { assert!(cr.prefix.get_ref()[i] == data[i]); i += 1; }
		assert!(cr.source.reads <= 1);
		match r {
			Ok(n) => {
				assert!(n <= bl);
				assert!(cr.prefix.position() as usize == pos + n);
				let mut i = 0; while i < n { assert!(buf[i] == data[pos + i]); i += 1; }
				if n == 0 && bl > 0 { assert!(pos == off && off1 == off); }
			}
			Err(_) => { assert!(off1 == off); }
		}
	}
}

// ---- second probe: capture_up_to_size step contract. With the real std read_to_end: timeout
// (10 min, symbolic execution of default_read_to_end). With std::io::default_read_to_end stubbed
// by an executable statement of its contract (-Z stubbing): 658 checks, 117 s. ----
//	fn read_to_end_contract<R: Read + ?Sized>(r: &mut R, buf: &mut Vec<u8>, _hint: Option<usize>) -> io::Result<usize> {
//		let mut total = 0; let mut tmp = [0u8; 2];
//		loop { let n = r.read(&mut tmp)?; if n == 0 { return Ok(total); } buf.extend_from_slice(&tmp[..n]); total += n; }
//	}
//	#[kani::proof] #[kani::unwind(9)]
//	#[kani::stub(std::io::default_read_to_end, read_to_end_contract)]
//	fn capture_up_to_size_step() {
//		let (mut cr, data, len, off) = any_valid(true);   // arbitrary state satisfying the invariant
//		let pos = cr.prefix.position();
//		let size: usize = kani::any(); kani::assume(size <= N + 2);
//		let r = cr.capture_up_to_size(size);
//		let off1 = cr.source.off;
//		assert!(cr.prefix.get_ref().len() == off1);                       // invariant kept, Ok or Err
//		let mut i = 0; while i < off1 { assert!(cr.prefix.get_ref()[i] == data[i]); i += 1; }
//		assert!(cr.prefix.position() == pos);                             // position untouched
//		assert!(off1 <= std::cmp::max(off, size));                        // never reads past the cap
//		if r.is_ok() { assert!(off1 >= std::cmp::min(size, len)); if cr.source_eof && off1 > off { assert!(off1 == len); } }
//	}
