// Design-phase probe (not framework code): appended to a scratch copy of src/yaml/encoding.rs; passes on the pinned tree: 956 checks + 2 covers, 173 s
#[cfg(kani)]
mod verif_kani {
	use super::*;

	// Independent UTF-8 encoder (bit arithmetic, RFC 3629 table).
	fn utf8(c: u32, out: &mut [u8; 4]) -> usize {
		if c < 0x80 { out[0] = c as u8; 1 }
		else if c < 0x800 { out[0] = 0xC0 | (c >> 6) as u8; out[1] = 0x80 | (c & 0x3F) as u8; 2 }
		else if c < 0x10000 { out[0] = 0xE0 | (c >> 12) as u8; out[1] = 0x80 | ((c >> 6) & 0x3F) as u8; out[2] = 0x80 | (c & 0x3F) as u8; 3 }
		else { out[0] = 0xF0 | (c >> 18) as u8; out[1] = 0x80 | ((c >> 12) & 0x3F) as u8; out[2] = 0x80 | ((c >> 6) & 0x3F) as u8; out[3] = 0x80 | (c & 0x3F) as u8; 4 }
	}

	const K: usize = 3; // characters available from the source in this step
	struct Chars { items: [Option<char>; K], errs: [bool; K], n: usize, taken: usize }
	impl Iterator for Chars {
		type Item = io::Result<char>;
		fn next(&mut self) -> Option<io::Result<char>> {
			if self.taken >= self.n { return None; }
			let i = self.taken; self.taken += 1;
			if self.errs[i] { Some(Err(io::ErrorKind::InvalidData.into())) } else { Some(Ok(self.items[i].unwrap())) }
		}
	}

	#[kani::proof]
	#[kani::unwind(8)]
	fn utf8_encoder_read_step() {
		let c: [char; K] = kani::any();
		let errs: [bool; K] = kani::any();
		let n: usize = kani::any(); kani::assume(n <= K);
		let src = Chars { items: [Some(c[0]), Some(c[1]), Some(c[2])], errs, n, taken: 0 };
		let mut enc = Utf8Encoder::new(src);
		enc.started = kani::any();
		// arbitrary valid remainder: up to 3 pending bytes
		let rem: [u8; 3] = kani::any();
		let rl: usize = kani::any(); kani::assume(rl <= 3);
		enc.remainder.set(&rem[..rl]);
		let started0 = enc.started;

		let mut buf = [0u8; 6];
		let bl: usize = kani::any(); kani::assume(bl <= 6);
		let r = enc.read(&mut buf[..bl]);

		// expected pending stream P = rem ++ utf8(chars taken, minus one leading BOM if !started)
		let mut p = [0u8; 3 + 4 * K];
		let mut pl = 0;
		let mut i = 0; while i < rl { p[pl] = rem[i]; pl += 1; i += 1; }
		let taken = enc.source.taken;
		let mut j = 0; let mut first = true; let mut saw_err = false;
		while j < taken {
			if errs[j] { saw_err = true; break; }
			let skip = first && !started0 && c[j] == '\u{FEFF}' && rl == 0;
			// NOTE: the BOM is only examined when next_char is actually called for the first time
			if !(first && !started0 && c[j] == '\u{FEFF}') {
				let mut t = [0u8; 4]; let l = utf8(c[j] as u32, &mut t);
				let mut k = 0; while k < l { p[pl] = t[k]; pl += 1; k += 1; }
			}
			let _ = skip;
			first = false;
			j += 1;
		}
		match r {
			Ok(w) => {
				assert!(!saw_err);
				assert!(w <= bl);
				let rest = enc.remainder.unread();
				assert!(rest.len() <= 3);
				assert!(w + rest.len() == pl);
				let mut k = 0; while k < w { assert!(buf[k] == p[k]); k += 1; }
				let mut k = 0; while k < rest.len() { assert!(rest[k] == p[w + k]); k += 1; }
				if !rest.is_empty() { assert!(w == bl); }
				if w < bl { assert!(taken == n); } // stopped early only because the source ended
				kani::cover!(w == bl && !rest.is_empty());
				kani::cover!(w < bl);
			}
			Err(_) => { assert!(saw_err); }
		}
	}
}
