// Design-phase probe (not framework code): harness module that was appended to a scratch copy of src/msgpack.rs
#[cfg(kani)]
mod verif_kani {
	use super::*;

	#[kani::proof]
	#[kani::unwind(6)]
	fn input_matches_slice_never_io_error() {
		let b: [u8; 3] = kani::any();
		let n: usize = kani::any();
		kani::assume(n <= 3);
		let r = input_matches(Ref::Slice(&b[..n]));
		assert!(r.is_ok());
	}
}
