// Design-phase probe (not framework code): appended to a scratch copy of src/detect.rs; passes on the pinned tree: 414 checks, 1.6 s
#[cfg(kani)]
mod verif_kani {
	use super::*;
	use crate::input::Ref;

	// outcome per trial: 0 = Ok(false), 1 = Ok(true), 2 = Err
	static mut OUTCOME: [u8; 4] = [0; 4];
	static mut CALLS: [u8; 4] = [0; 4];
	static mut ORDER_OK: bool = true;
	static mut NEXT: usize = 0;

	fn trial(i: usize) -> io::Result<bool> {
		unsafe {
			if NEXT != i { ORDER_OK = false; }
			NEXT = i + 1;
			CALLS[i] += 1;
			match OUTCOME[i] { 0 => Ok(false), 1 => Ok(true), _ => Err(io::ErrorKind::Other.into()) }
		}
	}
	fn mp(_r: Ref) -> io::Result<bool> { trial(0) }
	fn js(_r: Ref) -> io::Result<bool> { trial(1) }
	fn ym(_r: Ref) -> io::Result<bool> { trial(2) }
	fn tm(_r: Ref) -> io::Result<bool> { trial(3) }

	#[kani::proof]
	#[kani::unwind(5)]
	#[kani::stub(crate::msgpack::input_matches, mp)]
	#[kani::stub(crate::json::input_matches, js)]
	#[kani::stub(crate::yaml::input_matches, ym)]
	#[kani::stub(crate::toml::input_matches, tm)]
	fn detect_order_and_totality() {
		let o: [u8; 4] = kani::any();
		kani::assume(o[0] < 3 && o[1] < 3 && o[2] < 3 && o[3] < 3);
		unsafe { OUTCOME = o; }
		let data = [0u8; 2];
		let mut h = input::Handle::from_slice(&data);
		let r = detect_format(&mut h);
		// first trial that is not Ok(false)
		let mut first = 4; let mut i = 0;
		while i < 4 { if o[i] != 0 && first == 4 { first = i; } i += 1; }
		assert!(unsafe { ORDER_OK });
		match r {
			Ok(None) => assert!(first == 4),
			Ok(Some(f)) => {
				let idx = match f { Format::Msgpack => 0, Format::Json => 1, Format::Yaml => 2, Format::Toml => 3 };
				assert!(first == idx && o[idx] == 1);
			}
			Err(_) => assert!(first < 4 && o[first] == 2),
		}
		// no trial after the deciding one ran; each earlier one ran exactly once
		let mut j = 0;
		while j < 4 { let c = unsafe { CALLS[j] }; if j <= first && j < 4 { assert!(c == 1); } else { assert!(c == 0); } j += 1; }
	}
}
