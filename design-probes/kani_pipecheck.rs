// Design-phase probe (not framework code): appended to a scratch copy of src/pipecheck.rs; passes on the pinned tree: 297 checks + 2 covers, 9 s (bin target)
#[cfg(kani)]
mod verif_kani {
	use super::*;

	static mut DIVERTED: bool = false;
	fn exit_marker() -> ! { unsafe { DIVERTED = true; } kani::assume(false); loop {} }

	struct Inner { kind: u8, calls: u8 }
	impl Inner {
		fn res<T>(&mut self, ok: T) -> io::Result<T> {
			self.calls += 1;
			match self.kind { 0 => Ok(ok), 1 => Err(io::ErrorKind::BrokenPipe.into()), 2 => Err(io::ErrorKind::StorageFull.into()), _ => Err(io::ErrorKind::Other.into()) }
		}
	}
	impl Write for Inner {
		fn write(&mut self, buf: &[u8]) -> io::Result<usize> { self.res(buf.len()) }
		fn flush(&mut self) -> io::Result<()> { self.res(()) }
		fn write_all(&mut self, _buf: &[u8]) -> io::Result<()> { self.res(()) }
		fn write_fmt(&mut self, _f: std::fmt::Arguments<'_>) -> io::Result<()> { self.res(()) }
		fn write_vectored(&mut self, _b: &[io::IoSlice<'_>]) -> io::Result<usize> { self.res(0) }
	}

	#[kani::proof]
	#[kani::stub(exit_for_broken_pipe, exit_marker)]
	fn every_write_method_diverts_broken_pipe() {
		let kind: u8 = kani::any(); kani::assume(kind < 4);
		let which: u8 = kani::any(); kani::assume(which < 5);
		let mut w = Writer::new(Inner { kind, calls: 0 });
		let data = [1u8, 2, 3];
		let is_err = match which {
			0 => w.write(&data).is_err(),
			1 => w.flush().is_err(),
			2 => w.write_all(&data).is_err(),
			3 => w.write_fmt(format_args!("x")).is_err(),
			_ => w.write_vectored(&[io::IoSlice::new(&data)]).is_err(),
		};
		// reaching here means the call returned to the caller
		assert!(kind != 1);
		assert!(w.0.calls == 1);
		assert!(is_err == (kind >= 2));
		kani::cover!(kind == 0);
		kani::cover!(kind == 2);
	}
}
