// Design-phase probe (not framework code): harness module that was appended to a scratch copy of src/main.rs
#[cfg(kani)]
mod verif_kani {
	use super::*;
	use std::os::unix::ffi::OsStrExt;
	use std::ffi::OsStr;

	static mut EXT: [u8; 7] = [0; 7];
	static mut EXT_LEN: usize = 0;
	static mut EXT_SOME: bool = false;

	// Assumed contract of std::path::Path::extension: returns None or some OsStr (the last extension).
	fn ext_stub(_p: &Path) -> Option<&OsStr> {
		unsafe {
			if EXT_SOME { let r: &[u8; 7] = &*std::ptr::addr_of!(EXT); Some(OsStr::from_bytes(&r[..EXT_LEN])) } else { None }
		}
	}

	#[kani::proof]
	#[kani::unwind(9)]
	#[kani::stub(std::path::Path::extension, ext_stub)]
	fn extension_table() {
		let ext: [u8; 7] = kani::any();
		let n: usize = kani::any();
		kani::assume(n <= 7);
		let some: bool = kani::any();
		unsafe { EXT = ext; EXT_LEN = n; EXT_SOME = some; }
		let p = InputPath::File(PathBuf::new());
		let got = p.extension_format();
		let l = |i: usize| ext[i].to_ascii_lowercase();
		let is = |w: &[u8]| -> bool { if n != w.len() { return false; } let mut i = 0; while i < w.len() { if l(i) != w[i] { return false; } i += 1; } true };
		let want = if !some { None } else if is(b"json") { Some(0u8) } else if is(b"msgpack") { Some(1) } else if is(b"toml") { Some(2) } else if is(b"yaml") || is(b"yml") { Some(3) } else { None };
		let got = got.map(|f| match f { Format::Json => 0u8, Format::Msgpack => 1, Format::Toml => 2, Format::Yaml => 3, _ => 9 });
		assert!(got == want);
	}
}
