// Design-phase probe (not framework code): harness module that was appended to a scratch copy of src/transcode/stream.rs
#[cfg(kani)]
mod verif_kani {
	use super::*;
	use serde::de::{MapAccess, SeqAccess, Visitor as DeVisitor};
	use serde::forward_to_deserialize_any;

	// 0 = none yet, 1 = deserializer failed first, 2 = serializer failed first
	static mut FIRST: u8 = 0;
	fn note(side: u8) { unsafe { if FIRST == 0 { FIRST = side; } } }
	fn first() -> u8 { unsafe { FIRST } }

	#[derive(Debug)]
	struct DeErr { synthetic: bool }
	impl fmt::Display for DeErr { fn fmt(&self, _: &mut fmt::Formatter) -> fmt::Result { Ok(()) } }
	impl error::Error for DeErr {}
	impl de::Error for DeErr { fn custom<T: fmt::Display>(_: T) -> Self { DeErr { synthetic: true } } }

	#[derive(Debug)]
	struct SerErr { synthetic: bool }
	impl fmt::Display for SerErr { fn fmt(&self, _: &mut fmt::Formatter) -> fmt::Result { Ok(()) } }
	impl error::Error for SerErr {}
	impl ser::Error for SerErr { fn custom<T: fmt::Display>(_: T) -> Self { SerErr { synthetic: true } } }

	fn de_fail() -> DeErr { note(1); DeErr { synthetic: false } }
	fn ser_fail() -> SerErr { note(2); SerErr { synthetic: false } }

	struct MockDe { depth: u8 }
	impl<'de> Deserializer<'de> for MockDe {
		type Error = DeErr;
		fn deserialize_any<V: DeVisitor<'de>>(self, v: V) -> Result<V::Value, DeErr> {
			let k: u8 = kani::any();
			kani::assume(k < 5);
			match k {
				0 => Err(de_fail()),
				1 => v.visit_bool(kani::any()),
				2 => v.visit_u64(kani::any()),
				3 if self.depth > 0 => {
					let n: u8 = kani::any(); kani::assume(n <= 2);
					v.visit_seq(MockSeq { remaining: n, depth: self.depth - 1 })
				}
				4 if self.depth > 0 => {
					let n: u8 = kani::any(); kani::assume(n <= 1);
					v.visit_map(MockMap { remaining: n, depth: self.depth - 1 })
				}
				_ => v.visit_unit(),
			}
		}
		forward_to_deserialize_any! {
			bool i8 i16 i32 i64 i128 u8 u16 u32 u64 u128 f32 f64 char str string
			bytes byte_buf option unit unit_struct newtype_struct seq tuple
			tuple_struct map struct enum identifier ignored_any
		}
	}
	struct MockSeq { remaining: u8, depth: u8 }
	impl<'de> SeqAccess<'de> for MockSeq {
		type Error = DeErr;
		fn next_element_seed<T: DeserializeSeed<'de>>(&mut self, seed: T) -> Result<Option<T::Value>, DeErr> {
			if kani::any() { return Err(de_fail()); }
			if self.remaining == 0 { return Ok(None); }
			self.remaining -= 1;
			seed.deserialize(MockDe { depth: self.depth }).map(Some)
		}
	}
	struct MockMap { remaining: u8, depth: u8 }
	impl<'de> MapAccess<'de> for MockMap {
		type Error = DeErr;
		fn next_key_seed<K: DeserializeSeed<'de>>(&mut self, seed: K) -> Result<Option<K::Value>, DeErr> {
			if kani::any() { return Err(de_fail()); }
			if self.remaining == 0 { return Ok(None); }
			self.remaining -= 1;
			seed.deserialize(MockDe { depth: self.depth }).map(Some)
		}
		fn next_value_seed<V: DeserializeSeed<'de>>(&mut self, seed: V) -> Result<V::Value, DeErr> {
			if kani::any() { return Err(de_fail()); }
			seed.deserialize(MockDe { depth: self.depth })
		}
	}

	struct MockSer;
	struct MockCompound;
	macro_rules! scalar { ($($name:ident($ty:ty))*) => { $(fn $name(self, _v: $ty) -> Result<(), SerErr> { if kani::any() { Err(ser_fail()) } else { Ok(()) } })* } }
	impl Serializer for MockSer {
		type Ok = (); type Error = SerErr;
		type SerializeSeq = MockCompound; type SerializeTuple = ser::Impossible<(), SerErr>;
		type SerializeTupleStruct = ser::Impossible<(), SerErr>; type SerializeTupleVariant = ser::Impossible<(), SerErr>;
		type SerializeMap = MockCompound; type SerializeStruct = ser::Impossible<(), SerErr>;
		type SerializeStructVariant = ser::Impossible<(), SerErr>;
		scalar! { serialize_bool(bool) serialize_i8(i8) serialize_i16(i16) serialize_i32(i32) serialize_i64(i64)
			serialize_u8(u8) serialize_u16(u16) serialize_u32(u32) serialize_u64(u64) serialize_f32(f32) serialize_f64(f64)
			serialize_char(char) serialize_str(&str) serialize_bytes(&[u8]) }
		fn serialize_unit(self) -> Result<(), SerErr> { if kani::any() { Err(ser_fail()) } else { Ok(()) } }
		fn serialize_none(self) -> Result<(), SerErr> { unreachable!() }
		fn serialize_some<T: ?Sized + Serialize>(self, _: &T) -> Result<(), SerErr> { unreachable!() }
		fn serialize_unit_struct(self, _: &'static str) -> Result<(), SerErr> { unreachable!() }
		fn serialize_unit_variant(self, _: &'static str, _: u32, _: &'static str) -> Result<(), SerErr> { unreachable!() }
		fn serialize_newtype_struct<T: ?Sized + Serialize>(self, _: &'static str, _: &T) -> Result<(), SerErr> { unreachable!() }
		fn serialize_newtype_variant<T: ?Sized + Serialize>(self, _: &'static str, _: u32, _: &'static str, _: &T) -> Result<(), SerErr> { unreachable!() }
		fn serialize_seq(self, _: Option<usize>) -> Result<MockCompound, SerErr> { if kani::any() { Err(ser_fail()) } else { Ok(MockCompound) } }
		fn serialize_tuple(self, _: usize) -> Result<Self::SerializeTuple, SerErr> { unreachable!() }
		fn serialize_tuple_struct(self, _: &'static str, _: usize) -> Result<Self::SerializeTupleStruct, SerErr> { unreachable!() }
		fn serialize_tuple_variant(self, _: &'static str, _: u32, _: &'static str, _: usize) -> Result<Self::SerializeTupleVariant, SerErr> { unreachable!() }
		fn serialize_map(self, _: Option<usize>) -> Result<MockCompound, SerErr> { if kani::any() { Err(ser_fail()) } else { Ok(MockCompound) } }
		fn serialize_struct(self, _: &'static str, _: usize) -> Result<Self::SerializeStruct, SerErr> { unreachable!() }
		fn serialize_struct_variant(self, _: &'static str, _: u32, _: &'static str, _: usize) -> Result<Self::SerializeStructVariant, SerErr> { unreachable!() }
	}
	impl SerializeSeq for MockCompound {
		type Ok = (); type Error = SerErr;
		fn serialize_element<T: ?Sized + Serialize>(&mut self, v: &T) -> Result<(), SerErr> {
			if kani::any() { return Err(ser_fail()); } // e.g. writing ',' failed
			v.serialize(MockSer)
		}
		fn end(self) -> Result<(), SerErr> { if kani::any() { Err(ser_fail()) } else { Ok(()) } }
	}
	impl SerializeMap for MockCompound {
		type Ok = (); type Error = SerErr;
		fn serialize_key<T: ?Sized + Serialize>(&mut self, v: &T) -> Result<(), SerErr> {
			if kani::any() { return Err(ser_fail()); }
			v.serialize(MockSer)
		}
		fn serialize_value<T: ?Sized + Serialize>(&mut self, v: &T) -> Result<(), SerErr> {
			if kani::any() { return Err(ser_fail()); }
			v.serialize(MockSer)
		}
		fn end(self) -> Result<(), SerErr> { if kani::any() { Err(ser_fail()) } else { Ok(()) } }
	}

	#[kani::proof]
	#[kani::unwind(4)]
	fn transcode_error_attribution() {
		let r = transcode(MockSer, MockDe { depth: 1 });
		match r {
			Ok(()) => assert!(first() == 0),
			Err(Error::De(e)) => { assert!(first() == 1); assert!(!e.synthetic); }
			Err(Error::Ser(s, _)) => { assert!(first() == 2); assert!(!s.synthetic); }
		}
	}
}
