use vstd::prelude::*;
use vstd::std_specs::convert::IntoSpec;
use vstd::std_specs::convert::FromSpecImpl;
verus! {
// ASSUMPTION (core): the reflexive conversion `impl<T> From<T> for T` is the identity on u32.
#[verifier::external_body]
pub broadcast proof fn axiom_u32_into_u32(x: u32)
    ensures <u32 as IntoSpec<u32>>::obeys_into_spec(), #[trigger] IntoSpec::<u32>::into_spec(x) == x,
{ }

fn conv<N: Into<u32>>(count: N) -> (r: u32)
    requires N::obeys_into_spec(),
    ensures r == count.into_spec(),
{
    count.into()
}
fn call8(x: u8) -> (r: u32) ensures r == x as u32 { conv(x) }
fn call16(x: u16) -> (r: u32) ensures r == x as u32 { conv(x) }
fn call32(x: u32) -> (r: u32) ensures r == x { broadcast use axiom_u32_into_u32; conv(x) }
}
fn main() {}
