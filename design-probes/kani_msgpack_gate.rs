// Design-phase probe (not framework code): appended to a scratch copy of src/msgpack.rs.
// FAILS on the pinned tree in 5 s ("assertion failed: SOURCE_FAILED": Err returned although the
// source never failed = defect F3); passes in 10 s with candidate-fixes.patch applied.
#[cfg(kani)]
mod verif_kani {
	use super::*;

	static mut SOURCE_FAILED: bool = false;

	// Assumed contract of rmp_serde on a source that may or may not fail: any error variant;
	// an UnexpectedEof "I/O error" is produced for truncated input even if the source never failed.
	fn rmp_result() -> Result<(), rmp_serde::decode::Error> {
		let k: u8 = kani::any();
		kani::assume(k < 6);
		match k {
			0 => Ok(()),
			1 => Err(InvalidMarkerRead(io::ErrorKind::UnexpectedEof.into())),
			2 => Err(InvalidDataRead(io::ErrorKind::UnexpectedEof.into())),
			3 => { unsafe { SOURCE_FAILED = true; } Err(InvalidDataRead(io::ErrorKind::ConnectionReset.into())) }
			4 => Err(rmp_serde::decode::Error::DepthLimitExceeded),
			_ => Err(rmp_serde::decode::Error::TypeMismatch(Marker::Reserved)),
		}
	}
	fn buffer_stub(_input: &[u8]) -> Result<(), rmp_serde::decode::Error> { rmp_result() }

	#[kani::proof]
	#[kani::unwind(3)]
	#[kani::stub(match_input_buffer, buffer_stub)]
	fn input_matches_gate_and_error_mapping() {
		let b: [u8; 2] = kani::any();
		let n: usize = kani::any();
		kani::assume(n <= 2);
		let r = input_matches(Ref::Slice(&b[..n]));
		let collection = n >= 1 && ((0x80..=0x9f).contains(&b[0]) || (0xdc..=0xdf).contains(&b[0]));
		match r {
			Ok(true) => assert!(collection),
			Ok(false) => {}
			Err(_) => assert!(unsafe { SOURCE_FAILED }),
		}
		if !collection { assert!(matches!(r, Ok(false))); }
		if unsafe { SOURCE_FAILED } { assert!(r.is_err()); }
	}
}
