// Design-phase probe (not framework code): harness module that was appended to a scratch copy of src/toml.rs
#[cfg(kani)]
mod verif_kani {
	use super::*;
	use serde::de::{Deserializer, Visitor as DeVisitor, MapAccess};
	use serde::forward_to_deserialize_any;
	use crate::Output as _;

	static mut DE_TOUCHED: bool = false;

	#[derive(Debug)]
	struct DeErr;
	impl fmt::Display for DeErr { fn fmt(&self, _: &mut fmt::Formatter) -> fmt::Result { Ok(()) } }
	impl error::Error for DeErr {}
	impl de::Error for DeErr { fn custom<T: fmt::Display>(_: T) -> Self { DeErr } }

	struct MockDe { kind: u8 }
	impl<'de> Deserializer<'de> for MockDe {
		type Error = DeErr;
		fn deserialize_any<V: DeVisitor<'de>>(self, v: V) -> Result<V::Value, DeErr> {
			unsafe { DE_TOUCHED = true; }
			match self.kind {
				0 => v.visit_bool(kani::any()),
				1 => v.visit_i64(kani::any()),
				2 => v.visit_f64(kani::any()),
				_ => v.visit_map(EmptyMap),
			}
		}
		forward_to_deserialize_any! {
			bool i8 i16 i32 i64 i128 u8 u16 u32 u64 u128 f32 f64 char str string
			bytes byte_buf option unit unit_struct newtype_struct seq tuple
			tuple_struct map struct enum identifier ignored_any
		}
	}
	struct EmptyMap;
	impl<'de> MapAccess<'de> for EmptyMap {
		type Error = DeErr;
		fn next_key_seed<K: de::DeserializeSeed<'de>>(&mut self, _seed: K) -> Result<Option<K::Value>, DeErr> { Ok(None) }
		fn next_value_seed<V: de::DeserializeSeed<'de>>(&mut self, _seed: V) -> Result<V::Value, DeErr> { unreachable!() }
	}

	struct W { writes: usize, bytes: usize }
	impl Write for W {
		fn write(&mut self, buf: &[u8]) -> io::Result<usize> { self.writes += 1; self.bytes += buf.len(); Ok(buf.len()) }
		fn flush(&mut self) -> io::Result<()> { Ok(()) }
	}

	#[kani::proof]
	#[kani::unwind(3)]
	fn toml_second_use_refused_before_any_work() {
		let mut out = Output::new(W { writes: 0, bytes: 0 });
		out.used = true; // arbitrary history: some document was already accepted
		let k: u8 = kani::any(); kani::assume(k < 4);
		let r = out.transcode_from(MockDe { kind: k });
		assert!(r.is_err());
		assert!(unsafe { !DE_TOUCHED });
		assert!(out.w.writes == 0);
		assert!(out.used);
	}

	#[kani::proof]
	#[kani::unwind(3)]
	fn toml_non_table_root_refused_without_write() {
		let mut out = Output::new(W { writes: 0, bytes: 0 });
		let k: u8 = kani::any(); kani::assume(k < 3);
		let r = out.transcode_from(MockDe { kind: k });
		assert!(r.is_err());
		assert!(out.w.writes == 0);
		assert!(out.used);
	}
}
